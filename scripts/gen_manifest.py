#!/usr/bin/env python3
# Regenerates /verif/MANIFEST.json from the table below. Properties without an entry go to not_applicable.
import json, subprocess, sys
props = [json.loads(l)['id'] for l in open('/verif/properties.jsonl')]
hook_commits = subprocess.run(['git','-C','/repo','log','--format=%H %s'],capture_output=True,text=True).stdout.splitlines()
hook_commits = [l.split()[0] for l in hook_commits if ' verif hooks:' in l][::-1]

T = {}
def add(pid, level, text, note, technique, ref):
    T[pid] = dict(level=level, text=text, note=note, technique=technique, ref=ref)

add('C01','exploration',"Differential run of the real engine against a map model over generated single-client programs x tiny random configurations x steered/perturbed flusher timing; every read after every commit is compared; each real compaction is additionally judged in situ. A share of the cases uses the wide configuration range (engine defaults, L0 widths up to 12), a store with a planted history (commit timestamp about to cross 2^16/2^31/2^32/2^53), 64 KiB-1 MiB values; the driver reuses its value buffers after Update returned and re-checks values Get returned earlier. Exploration is the right level: the quantifier ranges over inputs x configurations x schedules, which are sampled (thousands of programs), not enumerated.",
    "Trusts: the 30-line map model, the hook handler (counters/delays only), Go scheduler for background timing. Held on the executions produced, not a proof.","runtime monitoring: reference-model differential over generated programs with injected delays",'DESIGN.md 6 C01')
add('C02','exploration',"C01 programs with Close/Open cycles at random and targeted positions (after a rotation, with queued flushes, empty memtable, directly after Open), configuration re-drawn per incarnation; read-all after each reopen, then overwrite and read again; every fourth case uses a directory name with unusual characters spelled differently at each Open.",
    "Same-process reopen; cross-process recovery is exercised by the C03 runs. Level geometry fixed per directory as the property states.","runtime monitoring: reference-model differential with reopen steps",'DESIGN.md 6 C02')
add('C03','fault_enumeration',"Systematic process kill before every mutating file-system operation (hook in wal.go/level.go) of seeded programs, recovery in a fresh process, oracle = acknowledgement log; crash sequences (kill during recovery, again during the second recovery); each recovery is followed in turn by commits+Close, commits+a second crash, an idle Close, an idle crash, and a reader kept open across the first commits. Every operation index of drained programs is enumerated; free-running programs are sampled schedules.",
    "Process-crash model (completed operations persist). Kill points = hooked operations; operations of other goroutines in flight may or may not complete. Exhaustive over N only per program and schedule.","runtime monitoring: fault injection at every file-system operation + recovery oracle over an acknowledgement log",'DESIGN.md 5.5, 6 C03')
add('C04','fault_enumeration',"Same crash enumeration with programs biased to 3-6-key transactions straddling rotations; rules: keys of the transaction in flight at the kill are all old or all new; the last-writer keys of every acknowledged transaction are all visible or all not; programs with 3-6-key, multi-KiB and 260-330-key transactions.",
    "As C03. Atomicity of acknowledged transactions follows from the C03 rule (all writes visible).","runtime monitoring: fault injection at every file-system operation + all-or-nothing rule on the in-flight transaction",'DESIGN.md 6 C04')
add('C05','exploration',"Exact single-goroutine interleaving driver (every Get predicted by an MVCC model) plus concurrent histories recorded at the client boundary and checked with porcupine against a snapshot-read model (reads at the Begin interval, writes at the Commit interval), with long-lived readers across forced flushes/compactions/version GC.",
    "Unique values make reads identify writes. Checker timeouts are inconclusive. Only schedules the Go scheduler and injected delays produced.","runtime monitoring: exact scripted-interleaving oracle + offline linearizability check (porcupine) of recorded histories",'DESIGN.md 5.3, 5.4, 6 C05')
add('C06','exploration',"Recorded concurrent histories (anomaly-shaped workloads: RMW counters, write-skew pairs, audits) checked with porcupine against a strict-serializability model (one atomic op per committed transaction over its lifetime); projections first, then the full history.",
    "As C05; refused/discarded transactions are excluded from the serial order as the property states.","runtime monitoring: offline strict-serializability check (porcupine) of recorded histories",'DESIGN.md 5.3, 6 C06')
add('C07','exploration',"Scripted driver predicts every Commit outcome exactly with the SSI rule (iff), including a dedicated 'old reader' family for committed-list cleanup; under real concurrency two definite interval rules (spurious abort, missed conflict).",
    "Exactness only in the scripted driver; fingerprint collisions excluded by checking the key universe.","runtime monitoring: exact conflict oracle on scripted interleavings + interval rules on recorded histories",'DESIGN.md 5.4, 6 C07')
add('C08','exploration',"Unique values: no Get (same run, after drains, after reopen) may return a value whose only writer was discarded, refused or failed; exact table of misuse calls and their documented results inside the scripted driver.",
    "As C05.","runtime monitoring: unique-value provenance check over scripted and concurrent histories + misuse table",'DESIGN.md 6 C08')
add('C09','exploration',"Generated table layouts (overlapping and disjoint key windows, L0 widths up to 12) in a standalone level manager; after every compaction step: directory dump before/after (only versions shadowed at or below the watermark may vanish) and all keys x timestamps >= watermark looked up against a brute-force model; also after recovery. Real compactions inside the C01/C02/C05-C08/C12 workloads are judged by the same oracle through the compaction hook.",
    "Watermark driven through a verif accessor on the manager's own oracle. Tables built only the way the engine builds them.","runtime monitoring: before/after differential of real compactions against a brute-force lookup model",'DESIGN.md 6 C09')
add('C10','exploration',"Exhaustive small universe (3 keys x 3 versions, each absent/table1/table2, block size 1 or large: 39366 layouts x 30 queries, fresh and recovered handles; thorough = all, quick = seeded 1/8) plus random multi-level layouts (a share with a wide L0 and with versions moved up to 2^32, across 2^63, below MaxUint64); oracle = brute-force newest version <= ts.",
    "Exhaustive only for the small universe in the thorough tier; random layouts are sampled.","runtime monitoring: differential of the real lookup path against a brute-force model, small universe enumerated",'DESIGN.md 6 C10')
add('C11','exploration',"decode(encode(x)) == x for every codec incl. whole tables read back like recovery does and wal sequences, over generated content with boundary lengths (255/256/65535/65536/70000/2^20, 16-20 MiB), negative versions; stability: returned slices cloned at return and re-compared after concurrent encodings, a wal shared by concurrent writers and concurrent readers; the same under the Go race detector.",
    "nil == empty for byte strings. Race detector sees executed accesses only.","runtime monitoring: round-trip oracle + buffer-stability monitor + Go race detector",'DESIGN.md 6 C11')
add('C12','exploration',"Concurrent driver under the Go race detector (small workloads) and without it (larger), thresholds 1-1000 B and every flush-queue length incl. 0, injected delays between critical sections; violations = race reports, panics, any history-checker finding; part of the histories run with a fresh instance of the engine's own logger, with a second busy database in the process, on a store with a planted history, and with misuse calls during concurrent work.",
    "Race detector reports only executed, instrumented accesses; schedules as produced.","Go race detector + panic capture + offline history checks over stress workloads with injected delays",'DESIGN.md 6 C12')
add('C13','exploration',"Three monitors on pkg/watermark: sequential scripts against a reference model (upper bound, monotone, catches up at quiescent points), concurrent histories checked with porcupine (a DoneUntil read is legal iff <= the logical mark at its linearization point), WaitForMark scenarios (early return, lost wake-up, context errors, Stop with parked waiters), floods beyond the channel buffer; a share of the cases maps its indices into hostile ranges (jumps to 2^63 and near MaxUint64, strides of 2^40, 2^31/2^32 edges).",
    "Readings of the property text are listed in DESIGN.md section 7. Catch-up decided 20 s after quiescence with the goroutine dump attached.","runtime monitoring: reference-model monitor + porcupine history check + waiter scenarios",'DESIGN.md 6 C13')
add('C14','fault_enumeration',"On top of the crash enumeration the hook handler tracks every file's fsynced length; at each crash point with unsynced bytes, images with that file cut to every length in [synced, size) (or a boundary set for large gaps) are recovered and judged.",
    "Truncation of unsynced suffixes only; directory operations ordered and durable, as the property states.","runtime monitoring: fault injection (kill + truncation of unsynced tails) + recovery oracle",'DESIGN.md 5.5, 6 C14')
add('C15','exploration',"Scenario families (writers faster than a slowed flusher with queue 0-3, Begin storms during slowed commits, Close with pending flushes / idle / right after Open / with 110-210 transactions still open, two DBs) under a stuck-state detector: deadlock only if no hook fired between two goroutine dumps and all engine goroutines are parked in the same blocking frames; goroutine census after Close; immediate reopen compared with the writers' last commits.",
    "'Bounded time' decided as 'not in a stable blocked state'; starvation without blocking would be inconclusive.","runtime monitoring: stuck-state detector over goroutine dumps + hook activity, goroutine census, reopen differential",'DESIGN.md 5.6, 6 C15')
add('C16','exploration',"filter.Build over generated sets (1..30000 entries, binary/prefix/hostile keys, many versions of one key): Contains for every member; every table handle's filter after flush, compaction and recovery asked for every entry of its table.",
    "Per-table filters read through a verif accessor.","runtime monitoring: membership oracle over generated sets and live table handles",'DESIGN.md 6 C16')
add('C17','exploration',"Random operation sequences (Set/Delete/Get/LowerBound/Scan/All) on fresh skiplists (maxLevel 1..16, p 0.01..0.99) compared call by call with a sorted-slice model; every third sequence churns few keys with many successful Deletes so that the list's height shrinks and grows.",
    "Versioned keys only; single goroutine (the memtable serialises access).","runtime monitoring: reference-model differential over generated operation sequences",'DESIGN.md 6 C17')

claimed = sys.argv[1:] if len(sys.argv) > 1 else sorted(T)
checks = []
for pid in props:
    if pid not in claimed: continue
    t = T[pid]
    checks.append({
        "property_id": pid,
        "quick_cmd": f"./check {pid} quick",
        "thorough_cmd": f"./check {pid} thorough",
        "evidence_file": f"/verif/evidence/{pid}.json",
        "replay_cmd_template": "./check --replay {path}",
        "engine": "vcheck",
        "level_claimed": {"category": t['level'], "text": t['text'], "design_ref": t['ref']},
        "level_note": t['note'],
        "technique": t['technique'],
    })
m = {
  "version": 1,
  "setup_cmd": "./check --build",
  "hooks": {
    "guard": "verif",
    "enable": "go build -tags verif (the harness module replaces the engine module with /repo and is built with -tags verif by ./check)",
    "baseline_off_cmd": "cd /repo && go test -mod=mod -json -vet=off -count=1 -timeout 25m ./...",
    "source_commits": hook_commits,
    "add_only": True
  },
  "engines": [{"name": "vcheck", "path": "/verif/harness", "serves_properties": [c['property_id'] for c in checks],
               "kind_free_text": "Go harness (module verifharness, replace => /repo, built with -tags verif, go1.26.8 GOTOOLCHAIN=local): parent builds seeded case lists, worker processes run the real engine under hook handlers, oracles judge; porcupine v1.3.0 for history checks; -race build for C11/C12"}],
  "checks": checks,
  "not_applicable": [{"property_id": p, "reason": "check not registered yet (build in progress)"} for p in props if p not in claimed],
  "notes": "VERIF_SEED selects the case lists (default 1). Exit 0 held / 1 violation (VIOLATION lines) / 2 nothing decided (infrastructure failure or too few non-trivial cases). KNOWN_FINDINGS.txt lists fixed defects (fixed: lines suppress nothing). See DESIGN.md."
}
json.dump(m, open('/verif/MANIFEST.json','w'), indent=1)
print('claimed', [c['property_id'] for c in checks])
