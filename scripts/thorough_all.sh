#!/bin/bash
# scripts/thorough_all.sh [props...]  — run the thorough tier of each check once (seed from VERIF_SEED), one summary line each
cd "$(dirname "$0")/.."
props=${@:-C17 C13 C16 C10 C09 C11 C06 C08 C05 C07 C15 C12 C01 C02 C04 C14 C03}
for p in $props; do
  t0=$(date +%s)
  out=$(VERIF_OUT=${THOROUGH_OUT:-/tmp/thorough-out} ./check $p thorough 2>&1); code=$?
  echo "$p thorough exit=$code $(( $(date +%s)-t0 ))s $(echo "$out" | grep 'seed=' | cut -c1-200)"
  if [ $code -ne 0 ]; then echo "$out" | grep -A4 '^VIOLATION\|INCONCLUSIVE\|inconclusive:' | head -30; fi
done
