#!/usr/bin/env python3
# scripts/store_seed.py <id> <Cxx> <agent out dir> <round text> <change> <needs> <check=result>...
# copies patch.diff / demo_test.go / note.txt of a confirmed seeded change into seeded/<id>/ and writes meta.json
import json, os, shutil, sys
sid, prop, src, rnd, change, needs = sys.argv[1:7]
d = f"/verif/seeded/{sid}"
if os.path.exists(d): sys.exit(f"{d} exists: choose a fresh id")
os.makedirs(d)
shutil.copy(f"{src}/patch.diff", f"{d}/patch.diff")
shutil.copy(f"{src}/demo_test.go", f"{d}/demo_test.go.txt")
if os.path.exists(f"{src}/note.txt"): shutil.copy(f"{src}/note.txt", f"{d}/agent_notes.md")
meta = {"id": sid, "property": prop,
 "written_by": f"independent sub-agent ({rnd}) given only the property text and a scratch worktree of /repo",
 "change": change, "needs_to_manifest": needs,
 "confirmed_by_me": {"how": "scripts/seeded.sh <patch> <demo> <Cxx>: fresh scratch worktree of /repo HEAD; demo passes without the patch; with the patch `go test -vet=off -count=1 ./...` passes and the demo fails",
  "demo_without_patch": "pass", "repo_tests_with_patch": "pass", "demo_with_patch": "FAIL"},
 "checks_run": dict(a.split("=", 1) for a in sys.argv[7:])}
json.dump(meta, open(f"{d}/meta.json", "w"), indent=1, ensure_ascii=False); print("stored", d)
