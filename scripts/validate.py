#!/usr/bin/env python3-vt
# validate MANIFEST.json and every evidence file against the schemas
import json, sys, glob, jsonschema
ok = True
m = json.load(open('/verif/MANIFEST.json'))
jsonschema.validate(m, json.load(open('/root/.vp/MANIFEST.schema.json')))
es = json.load(open('/root/.vp/EVIDENCE.schema.json'))
for c in m['checks']:
    f = c['evidence_file']
    try:
        e = json.load(open(f))
        jsonschema.validate(e, es)
        assert e['property_id'] == c['property_id']
        assert e['level'] == c['level_claimed']['category'], (e['level'], c['level_claimed']['category'])
        print('ok', f, e['tier'], 'eval', e['coverage'].get('evaluations'), 'nt', e['coverage'].get('distinct_nontrivial'), 'wall', e['wall_s'])
    except Exception as ex:
        ok = False
        print('BAD', f, str(ex)[:300])
props = [json.loads(l)['id'] for l in open('/verif/properties.jsonl')]
claimed = {c['property_id'] for c in m['checks']}
na = {n['property_id'] for n in m.get('not_applicable', [])}
for p in props:
    if (p in claimed) == (p in na):
        ok = False; print('property', p, 'claimed and n/a mismatch')
sys.exit(0 if ok else 1)
