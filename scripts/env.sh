# sourced by ./check and by hand: offline Go toolchain settings
export GOTOOLCHAIN=local GOFLAGS=-mod=mod GOPROXY=off GOSUMDB=off
export PATH=/opt/veriftools/go1.26.8/bin:$PATH
