#!/bin/bash
# scripts/sweep.sh <tier> <seed>...   run every check at the given seeds; prints one line per run; exit 1 if any run is not silent
cd "$(dirname "$0")/.."
TIER=$1; shift
bad=0
for seed in "$@"; do
  for p in C01 C02 C03 C04 C05 C06 C07 C08 C09 C10 C11 C12 C13 C14 C15 C16 C17; do
    out=$(VERIF_SEED=$seed VERIF_OUT=${SWEEP_OUT:-/tmp/sweep-out} ./check $p $TIER 2>&1); code=$?
    echo "seed=$seed $p $TIER exit=$code $(echo "$out" | grep -o 'wall=[0-9.]*s') $(echo "$out" | grep -c '^VIOLATION') violations $(echo "$out" | grep -o 'inconclusive=[0-9]*')"
    if [ $code -ne 0 ]; then bad=1; echo "$out" | grep -A3 '^VIOLATION\|INCONCLUSIVE\|inconclusive:' | head -20; fi
  done
done
exit $bad
