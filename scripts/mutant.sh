#!/bin/bash
# scripts/mutant.sh <patch-file> <Cxx> [tier]  — self-validation: apply a mutant patch to a scratch
# worktree of /repo (HEAD), run the check against it with VERIF_REPO, print one summary line.
# Scratch worktree: /tmp/mut/originium (created on demand; remove with: git -C /repo worktree remove --force /tmp/mut/originium)
set -u
PATCH=$(readlink -f "$1"); PROP=$2; TIER=${3:-quick}
WT=/tmp/mut/originium
if [ ! -d "$WT" ]; then mkdir -p /tmp/mut && git -C /repo worktree add -q --detach "$WT" HEAD || exit 2; fi
git -C "$WT" reset -q --hard "$(git -C /repo rev-parse HEAD)"
git -C "$WT" apply "$PATCH" || { echo "MUTANT $(basename "$PATCH") $PROP: PATCH-FAILED"; exit 2; }
if [ "${MUTANT_TESTS:-0}" = 1 ]; then
  ( . /verif/scripts/env.sh; cd "$WT" && go test -vet=off -count=1 ./... >/tmp/mut/tests.log 2>&1 ) && t=tests-pass || t=TESTS-FAIL
else t=tests-skipped; fi
out=$(cd /verif && VERIF_REPO=$WT VERIF_OUT=/tmp/mut/out ./check "$PROP" "$TIER" 2>&1); code=$?
sig=$(echo "$out" | grep -A1 '^VIOLATION' | grep signature | head -3 | sed 's/^ *signature: //' | tr '\n' '|')
echo "MUTANT $(basename "$PATCH" .patch) $PROP $TIER: exit=$code $t $(echo "$out" | grep -c '^VIOLATION') violation-lines; $sig"
git -C "$WT" reset -q --hard HEAD
