#!/bin/bash
# scripts/seeded.sh <patch> <demo_test.go|-> <Cxx> [tier] — confirm a seeded change independently and run a check against it.
#  1. scratch worktree at /repo HEAD: demo passes without the patch
#  2. with the patch: the repository's own tests pass, the demo fails
#  3. ./check <Cxx> against the patched worktree (VERIF_REPO), summary line
set -u
PATCH=$(readlink -f "$1"); DEMO=$2; PROP=$3; TIER=${4:-quick}
WT=/tmp/mut/seedwt/originium
. /verif/scripts/env.sh
if [ ! -d "$WT" ]; then mkdir -p /tmp/mut/seedwt && git -C /repo worktree add -q --detach "$WT" HEAD || exit 2; fi
git -C "$WT" reset -q --hard "$(git -C /repo rev-parse HEAD)"; git -C "$WT" clean -qfd
demo_result() { # runs the demo test file, prints pass|FAIL
  [ "$DEMO" = "-" ] && { echo n/a; return; }
  pkg=$(grep -m1 '^package ' "$DEMO" | awk '{print $2}')
  case "$pkg" in
    originium) dir=.;;
    *) dir=$(cd "$WT" && grep -rl --include=*.go "^package $pkg\$" . | grep -v _test | head -1 | xargs dirname);;
  esac
  cp "$DEMO" "$WT/$dir/zz_seed_demo_test.go"
  tests=$(grep -o '^func Test[A-Za-z0-9_]*' "$DEMO" | sed 's/func //' | paste -sd'|')
  ( cd "$WT/$dir" && timeout 600 go test -vet=off -count=1 -run "^($tests)\$" . >/tmp/mut/demo.log 2>&1 ) && echo pass || echo FAIL
  rm -f "$WT/$dir/zz_seed_demo_test.go"
}
before=$(demo_result)
git -C "$WT" apply "$PATCH" || { echo "SEEDED $(basename $(dirname "$PATCH"))/$(basename "$PATCH"): PATCH-FAILED"; exit 2; }
( cd "$WT" && go build ./... && go test -vet=off -count=1 ./... >/tmp/mut/seedtests.log 2>&1 ) && t=tests-pass || t=TESTS-FAIL
after=$(demo_result)
out=$(cd /verif && VERIF_REPO=$WT VERIF_OUT=/tmp/mut/out ./check "$PROP" "$TIER" 2>&1); code=$?
sig=$(echo "$out" | grep -A1 '^VIOLATION' | grep signature | head -4 | sed 's/^ *signature: //' | tr '\n' '|')
echo "SEEDED $(basename $(dirname "$PATCH"))/$(basename "$PATCH") demo-without=$before $t demo-with=$after | $PROP $TIER exit=$code $(echo "$out" | grep -c '^VIOLATION') violation-lines; $sig"
git -C "$WT" reset -q --hard HEAD; git -C "$WT" clean -qfd
