// Package core is the parent/child framework shared by every check: case lists determined by
// (tier, seed), child processes that run one batch each, aggregation, evidence, replays,
// known findings and exit codes.
package core

import (
	"bufio"
	"crypto/sha1"
	"encoding/hex"
	"encoding/json"
	"fmt"
	"os"
	"os/exec"
	"path/filepath"
	"runtime/pprof"
	"sort"
	"strconv"
	"strings"
	"sync"
	"sync/atomic"
	"syscall"
	"time"
)

// Case is one unit of work; everything a worker does is derived from it deterministically
// (goroutine schedules excepted), so the case itself is the replay recipe.
type Case struct {
	ID   string            `json:"id"`
	Kind string            `json:"kind"`
	Seed int64             `json:"seed"`
	N    map[string]int64  `json:"n,omitempty"`
	S    map[string]string `json:"s,omitempty"`
}

func (c Case) Int(k string, def int64) int64 {
	if v, ok := c.N[k]; ok {
		return v
	}
	return def
}

func (c Case) Str(k, def string) string {
	if v, ok := c.S[k]; ok {
		return v
	}
	return def
}

type Violation struct {
	Prop   string `json:"prop"`
	Sig    string `json:"sig"`
	Detail string `json:"detail"`
}

// Result of one case. Verdict "ok" | "violation" | "inconclusive".
type Result struct {
	ID         string           `json:"id"`
	Verdict    string           `json:"verdict"`
	Violations []Violation      `json:"violations,omitempty"`
	Inconcl    string           `json:"inconclusive,omitempty"`
	Obs        map[string]int64 `json:"obs,omitempty"`
	NonTrivial bool             `json:"nontrivial"`
	Hash       string           `json:"hash,omitempty"`
	Sample     any              `json:"sample,omitempty"`
	Trace      any              `json:"trace,omitempty"`
	// properties (other than the check's own) for which the case was non-trivial
	Extra map[string]any `json:"extra,omitempty"`
}

func (r *Result) Violate(prop, sig, format string, a ...any) {
	r.Verdict = "violation"
	d := fmt.Sprintf(format, a...)
	if len(d) > 4000 {
		d = d[:4000] + "…"
	}
	r.Violations = append(r.Violations, Violation{Prop: prop, Sig: sig, Detail: d})
}

func (r *Result) AddObs(k string, n int64) {
	if r.Obs == nil {
		r.Obs = map[string]int64{}
	}
	r.Obs[foldKey(k)] += n
}

// foldKey folds per-level counters of deep levels into one bucket (compact.L7 -> compact.L5+).
func foldKey(k string) string {
	for _, p := range []string{"compact.L", "recover.table.L", "cases_maxlevel_", "maxlevel_", "layouts_maxlevel_"} {
		if strings.HasPrefix(k, p) {
			if n, err := strconv.Atoi(k[len(p):]); err == nil && n >= 5 {
				return p + "5+"
			}
		}
	}
	return k
}

func HashOf(v any) string {
	b, _ := json.Marshal(v)
	h := sha1.Sum(b)
	return hex.EncodeToString(h[:8])
}

// Check describes one registered check (one property).
type Check struct {
	Prop  string
	Level string // exploration | fault_enumeration
	Rule  string
	// Gen builds the case list for a tier from the seed.
	Gen func(tier string, seed int64) []Case
	// Run executes one case (in a worker process).
	Run func(c Case) Result
	// SelfTest exercises the oracle on synthetic inputs; an error is an infrastructure failure.
	SelfTest func() error
	// Race: run the workers from the -race binary and treat race reports as violations.
	Race bool
	// RaceKinds: only cases of these kinds run under the -race binary (Race must be false).
	RaceKinds map[string]bool
	// GoMaxProcs per worker (default 4), Parallel workers (default 16/GoMaxProcs*2 capped 16).
	GoMaxProcs int
	Parallel   int
	BatchSize  int
	// Env added to workers.
	Env []string
	// CaseTimeout: wall-clock watchdog per case; its expiry is inconclusive, never a violation.
	CaseTimeout time.Duration
	// MinNonTrivial per tier: fewer non-trivial distinct cases means nothing was decided (exit 2).
	MinNonTrivial map[string]int
	Assumptions   []string
	// Exhaustive reports whether the tier enumerated a finite space completely.
	Exhaustive func(tier string) bool
	// Props whose violations this check reports (default: only Prop).
	Reports []string
	// OnStuck is called in the worker when a case exceeded CaseTimeout, with the stuck-state
	// analysis; it may turn the inconclusive result into a violation (C15).
	OnStuck func(c Case, an StuckAnalysis, res *Result)
	// Post is called in the parent with all results, it may add observations to the evidence.
	Post func(tier string, results []Result, cov map[string]any)
}

var registry = map[string]*Check{}

func Register(c *Check) { registry[c.Prop] = c }

func Lookup(prop string) *Check { return registry[prop] }

func Props() []string {
	var ps []string
	for p := range registry {
		ps = append(ps, p)
	}
	sort.Strings(ps)
	return ps
}

// VerifDir is /verif (the directory holding MANIFEST.json), found from the executable or env.
func VerifDir() string {
	if d := os.Getenv("VERIF_DIR"); d != "" {
		return d
	}
	return "/verif"
}

// OutDir is where evidence and replays are written (VERIF_OUT redirects them for self-validation
// runs against scratch copies, so that committed evidence only ever comes from /repo).
func OutDir() string {
	if d := os.Getenv("VERIF_OUT"); d != "" {
		return d
	}
	return VerifDir()
}

// ScratchBase returns a fresh directory on tmpfs (fallback TMPDIR) for database directories.
func ScratchBase(tag string) string {
	base := "/dev/shm"
	if fi, err := os.Stat(base); err != nil || !fi.IsDir() {
		base = os.TempDir()
	}
	d, err := os.MkdirTemp(base, "verif-"+tag+"-")
	if err != nil {
		panic(err)
	}
	return d
}

// WorkerScratch is the scratch directory of this worker (on tmpfs, removed by the parent).
func WorkerScratch() string {
	d := os.Getenv("VERIF_SCRATCH")
	if d == "" {
		d = filepath.Join(os.TempDir(), fmt.Sprintf("verif-scratch-%d", os.Getpid()))
	}
	os.MkdirAll(d, 0755)
	return d
}

// ---------------------------------------------------------------------------------------------
// worker side

// WorkerMain runs the cases of a batch file sequentially and streams results.
func WorkerMain(prop, casesFile, outFile string) int {
	chk := Lookup(prop)
	if chk == nil {
		fmt.Fprintln(os.Stderr, "unknown check", prop)
		return 2
	}
	b, err := os.ReadFile(casesFile)
	if err != nil {
		fmt.Fprintln(os.Stderr, err)
		return 2
	}
	var cases []Case
	if err := json.Unmarshal(b, &cases); err != nil {
		fmt.Fprintln(os.Stderr, err)
		return 2
	}
	out, err := os.OpenFile(outFile, os.O_CREATE|os.O_WRONLY|os.O_APPEND, 0644)
	if err != nil {
		fmt.Fprintln(os.Stderr, err)
		return 2
	}
	defer out.Close()
	var wmu sync.Mutex
	write := func(v any) {
		line, _ := json.Marshal(v)
		wmu.Lock()
		out.Write(append(line, '\n'))
		wmu.Unlock()
	}
	workerWrite = write
	if pf := os.Getenv("VERIF_PPROF"); pf != "" {
		f, _ := os.Create(pf)
		pprof.StartCPUProfile(f)
		defer pprof.StopCPUProfile()
	}
	ct := chk.CaseTimeout
	if ct == 0 {
		ct = 180 * time.Second
	}
	var cur atomic.Pointer[Case]
	var started atomic.Int64
	// in-process watchdog: a case that exceeds its wall-clock limit is analysed (stable blocked
	// state or not), reported, and the process ends; the parent re-runs the rest of the batch.
	go func() {
		lastAct, lastChange := Activity.Load(), time.Now()
		var lastCase *Case
		for {
			time.Sleep(250 * time.Millisecond)
			c := cur.Load()
			if c == nil {
				continue
			}
			if c != lastCase {
				lastCase, lastAct, lastChange = c, Activity.Load(), time.Now()
			}
			if a := Activity.Load(); a != lastAct {
				lastAct, lastChange = a, time.Now()
			}
			running := time.Since(time.Unix(0, started.Load()))
			// early examination: the engine fires hooks all the time while it works; a case whose hook
			// counter has been silent for 40 s (and which used hooks before) is examined right away and
			// ended only if the analysis finds a stable blocked state
			silent := chk.OnStuck != nil && lastAct > 0 && time.Since(lastChange) > 40*time.Second && running > 40*time.Second
			if running < ct && !silent {
				continue
			}
			an := AnalyseStuck(3 * time.Second)
			if running < ct && !an.Stable {
				lastChange = time.Now() // not wedged: keep waiting for the hard limit
				continue
			}
			res := Result{ID: c.ID, Verdict: "inconclusive"}
			res.Inconcl = fmt.Sprintf("watchdog: case still running after %v; %s", running.Round(time.Second), an.Summary)
			res.Trace = map[string]any{"stuck_analysis": an}
			if chk.OnStuck != nil {
				chk.OnStuck(*c, an, &res)
			}
			write(res)
			write(map[string]bool{"watchdog": true})
			os.Exit(3)
		}
	}()
	for i := range cases {
		c := cases[i]
		write(map[string]string{"start": c.ID})
		started.Store(time.Now().UnixNano())
		cur.Store(&c)
		res := chk.Run(c)
		cur.Store(nil)
		res.ID = c.ID
		if res.Verdict == "" {
			res.Verdict = "ok"
		}
		write(res)
	}
	write(map[string]bool{"done": true})
	return 0
}

var workerWrite func(v any)

// EmitAndExit lets an in-process watchdog publish the result of the running case and end the
// process (used when the engine is wedged and the case can not return).
func EmitAndExit(res Result, code int) {
	if workerWrite != nil {
		workerWrite(res)
	}
	os.Exit(code)
}

// ---------------------------------------------------------------------------------------------
// parent side

type batchOut struct {
	results  []Result
	died     string // description if the child died
	lastCase string
	stderr   string
	raceLogs []string
	timedOut bool
	watchdog bool
}

func exe(race bool) string {
	self, _ := os.Executable()
	dir := filepath.Dir(self)
	if race {
		return filepath.Join(dir, "vcheck-race")
	}
	return filepath.Join(dir, "vcheck")
}

func runBatch(chk *Check, cases []Case, work string, idx int) batchOut {
	if len(cases) > 0 && chk.RaceKinds[cases[0].Kind] && !chk.Race {
		cp := *chk
		cp.Race = true
		chk = &cp
	}
	casesFile := filepath.Join(work, fmt.Sprintf("batch%d.json", idx))
	outFile := filepath.Join(work, fmt.Sprintf("batch%d.out", idx))
	errFile := filepath.Join(work, fmt.Sprintf("batch%d.err", idx))
	b, _ := json.Marshal(cases)
	os.WriteFile(casesFile, b, 0644)
	cmd := exec.Command(exe(chk.Race), "worker", chk.Prop, casesFile, outFile)
	ef, _ := os.Create(errFile)
	cmd.Stdout = ef
	cmd.Stderr = ef
	gmp := chk.GoMaxProcs
	if gmp == 0 {
		gmp = 4
	}
	cmd.Env = append(os.Environ(), "GOMAXPROCS="+strconv.Itoa(gmp), "GOTRACEBACK=all")
	racePrefix := filepath.Join(work, fmt.Sprintf("race%d", idx))
	if chk.Race {
		cmd.Env = append(cmd.Env, "GORACE=halt_on_error=0 log_path="+racePrefix)
	}
	cmd.Env = append(cmd.Env, chk.Env...)
	cmd.Env = append(cmd.Env, "VERIF_SCRATCH="+filepath.Join(work, fmt.Sprintf("scratch%d", idx)))
	ct := chk.CaseTimeout
	if ct == 0 {
		ct = 180 * time.Second
	}
	limit := ct*time.Duration(len(cases)) + 60*time.Second
	var bo batchOut
	if err := cmd.Start(); err != nil {
		bo.died = "start: " + err.Error()
		return bo
	}
	done := make(chan error, 1)
	go func() { done <- cmd.Wait() }()
	var werr error
	select {
	case werr = <-done:
	case <-time.After(limit):
		bo.timedOut = true
		cmd.Process.Signal(syscall.SIGQUIT)
		select {
		case werr = <-done:
		case <-time.After(10 * time.Second):
			cmd.Process.Kill()
			werr = <-done
		}
	}
	ef.Close()
	eb, _ := os.ReadFile(errFile)
	bo.stderr = string(eb)
	f, err := os.Open(outFile)
	finished := false
	if err == nil {
		sc := bufio.NewScanner(f)
		sc.Buffer(make([]byte, 1<<20), 1<<28)
		for sc.Scan() {
			line := sc.Bytes()
			var probe map[string]json.RawMessage
			if json.Unmarshal(line, &probe) != nil {
				continue
			}
			if s, ok := probe["start"]; ok {
				json.Unmarshal(s, &bo.lastCase)
				continue
			}
			if _, ok := probe["done"]; ok {
				finished = true
				continue
			}
			if _, ok := probe["watchdog"]; ok {
				bo.watchdog = true
				continue
			}
			var r Result
			if json.Unmarshal(line, &r) == nil && r.ID != "" {
				bo.results = append(bo.results, r)
				if r.ID == bo.lastCase {
					bo.lastCase = ""
				}
			}
		}
		f.Close()
	}
	if !finished {
		code := -1
		if ee, ok := werr.(*exec.ExitError); ok {
			code = ee.ExitCode()
		}
		bo.died = fmt.Sprintf("worker exit %d", code)
	}
	if chk.Race {
		m, _ := filepath.Glob(racePrefix + ".*")
		bo.raceLogs = m
	}
	return bo
}

// FirstPanic extracts the panic/fatal line and the first engine frame from a Go crash dump.
func FirstPanic(stderr string) (line, frame string) {
	lines := strings.Split(stderr, "\n")
	for i, l := range lines {
		if strings.HasPrefix(l, "panic:") || strings.HasPrefix(l, "fatal error:") {
			line = strings.TrimSpace(l)
			for _, m := range lines[i:] {
				m = strings.TrimSpace(m)
				if strings.HasPrefix(m, "github.com/B1NARY-GR0UP/originium") {
					frame = m
					if j := strings.LastIndex(frame, "("); j > 0 {
						frame = frame[:j]
					}
					break
				}
			}
			return
		}
	}
	return "", ""
}

type known struct {
	prop, sig, text string
}

func loadKnown() []known {
	var ks []known
	b, err := os.ReadFile(filepath.Join(VerifDir(), "KNOWN_FINDINGS.txt"))
	if err != nil {
		return nil
	}
	for _, l := range strings.Split(string(b), "\n") {
		l = strings.TrimSpace(l)
		if !strings.HasPrefix(l, "finding:") {
			continue // "fixed:" lines and comments suppress nothing
		}
		var k known
		for _, f := range strings.Fields(l) {
			if strings.HasPrefix(f, "property=") {
				k.prop = strings.TrimPrefix(f, "property=")
			}
			if strings.HasPrefix(f, "sig=") {
				k.sig = strings.TrimPrefix(f, "sig=")
			}
		}
		k.text = l
		if k.prop != "" && k.sig != "" {
			ks = append(ks, k)
		}
	}
	return ks
}

type vrec struct {
	v      Violation
	caseID string
	c      Case
	trace  any
	stderr string
}

// RunCheck is the parent entry point. Returns the process exit code.
func RunCheck(prop, tier string, seed int64) int {
	chk := Lookup(prop)
	if chk == nil {
		fmt.Println("unknown property", prop)
		return 2
	}
	t0 := time.Now()
	if chk.SelfTest != nil {
		if err := chk.SelfTest(); err != nil {
			fmt.Printf("SELFTEST-FAILED property=%s %v\n", prop, err)
			return 2
		}
	}
	cases := chk.Gen(tier, seed)
	if only := os.Getenv("VERIF_ONLY_CASE"); only != "" {
		var sel []Case
		for _, c := range cases {
			if c.ID == only {
				sel = append(sel, c)
			}
		}
		cases = sel
	}
	byID := map[string]Case{}
	for _, c := range cases {
		byID[c.ID] = c
	}
	work := ScratchBase("run-" + prop)
	defer os.RemoveAll(work)

	bs := chk.BatchSize
	if bs == 0 {
		bs = 8
	}
	par := chk.Parallel
	if par == 0 {
		gmp := chk.GoMaxProcs
		if gmp == 0 {
			gmp = 4
		}
		par = 32 / gmp
		if par > 16 {
			par = 16
		}
	}
	if v := os.Getenv("VERIF_PARALLEL"); v != "" {
		if n, err := strconv.Atoi(v); err == nil && n > 0 {
			par = n
		}
	}
	var batches [][]Case
	if len(chk.RaceKinds) > 0 {
		// a batch never mixes race and non-race kinds
		var a, b []Case
		for _, c := range cases {
			if chk.RaceKinds[c.Kind] {
				a = append(a, c)
			} else {
				b = append(b, c)
			}
		}
		for i := 0; i < len(a); i += bs {
			batches = append(batches, a[i:min(i+bs, len(a))])
		}
		for i := 0; i < len(b); i += bs {
			batches = append(batches, b[i:min(i+bs, len(b))])
		}
	} else {
		for i := 0; i < len(cases); i += bs {
			batches = append(batches, cases[i:min(i+bs, len(cases))])
		}
	}
	outs := make([]batchOut, len(batches))
	var watchdogs atomic.Int64
	sem := make(chan struct{}, par)
	var wg sync.WaitGroup
	for i := range batches {
		wg.Add(1)
		sem <- struct{}{}
		go func(i int) {
			defer wg.Done()
			defer func() { <-sem }()
			pending := batches[i]
			// a died worker loses the rest of its batch: re-run the remaining cases in a fresh process
			for attempt := 0; len(pending) > 0 && attempt < len(batches[i])+1; attempt++ {
				if watchdogs.Load() >= int64(max(4, len(cases)/20)) {
					break // circuit breaker: the tree hangs, stop burning time (the run ends inconclusive)
				}
				bo := runBatch(chk, pending, work, i*1000+attempt)
				if bo.watchdog {
					watchdogs.Add(1)
				}
				outs[i].results = append(outs[i].results, bo.results...)
				outs[i].raceLogs = append(outs[i].raceLogs, bo.raceLogs...)
				if bo.died == "" {
					break
				}
				if bo.watchdog {
					doneIDs := map[string]bool{}
					for _, r := range bo.results {
						doneIDs[r.ID] = true
					}
					var rest []Case
					for _, c := range pending {
						if !doneIDs[c.ID] {
							rest = append(rest, c)
						}
					}
					pending = rest
					continue
				}
				// attribute the death to the case that was running
				doneIDs := map[string]bool{}
				for _, r := range bo.results {
					doneIDs[r.ID] = true
				}
				culprit := bo.lastCase
				res := Result{ID: culprit, Verdict: "violation"}
				pl, fr := FirstPanic(bo.stderr)
				switch {
				case bo.timedOut:
					res.Verdict = "inconclusive"
					res.Inconcl = "watchdog: worker exceeded its wall-clock limit (" + bo.died + ")"
				case pl != "":
					res.Violate(prop, "panic/"+sigClean(fr), "worker died: %s at %s\n%s", pl, fr, tail(bo.stderr, 3000))
				default:
					res.Verdict = "inconclusive"
					res.Inconcl = "worker died without a Go panic: " + bo.died + " " + tail(bo.stderr, 500)
				}
				res.Trace = map[string]any{"stderr": tail(bo.stderr, 6000)}
				if culprit != "" {
					outs[i].results = append(outs[i].results, res)
					doneIDs[culprit] = true
				} else if bo.died != "" && len(bo.results) == 0 {
					res.ID = pending[0].ID
					outs[i].results = append(outs[i].results, res)
					doneIDs[pending[0].ID] = true
				}
				var rest []Case
				for _, c := range pending {
					if !doneIDs[c.ID] {
						rest = append(rest, c)
					}
				}
				pending = rest
			}
		}(i)
	}
	wg.Wait()

	var results []Result
	for _, o := range outs {
		results = append(results, o.results...)
	}
	sort.SliceStable(results, func(i, j int) bool { return results[i].ID < results[j].ID })
	// one result per case (a watchdog result and a regular one can race at the deadline)
	{
		var uniq []Result
		for i, r := range results {
			if i > 0 && results[i-1].ID == r.ID {
				continue
			}
			uniq = append(uniq, r)
		}
		results = uniq
	}

	reports := map[string]bool{prop: true}
	for _, p := range chk.Reports {
		reports[p] = true
	}

	// race reports
	var viol []vrec
	raceReports := 0
	if chk.Race || len(chk.RaceKinds) > 0 {
		seen := map[string]bool{}
		for _, o := range outs {
			for _, lf := range o.raceLogs {
				b, _ := os.ReadFile(lf)
				for _, rep := range ParseRaceLog(string(b)) {
					raceReports++
					if seen[rep.Sig] {
						continue
					}
					seen[rep.Sig] = true
					viol = append(viol, vrec{v: Violation{Prop: prop, Sig: "race/" + rep.Sig, Detail: rep.Text}, caseID: "race-" + HashOf(rep.Sig)})
				}
			}
		}
	}

	obs := map[string]int64{}
	distinct := map[string]bool{}
	nInconcl := 0
	var inconclSamples []string
	var samples []any
	for _, r := range results {
		for k, v := range r.Obs {
			obs[k] += v
		}
		if r.Verdict == "inconclusive" {
			nInconcl++
			if len(inconclSamples) < 5 {
				inconclSamples = append(inconclSamples, r.ID+": "+r.Inconcl)
			}
		}
		if r.NonTrivial {
			h := r.Hash
			if h == "" {
				h = r.ID
			}
			distinct[h] = true
		}
		if r.Sample != nil && len(samples) < 4 && r.NonTrivial {
			samples = append(samples, r.Sample)
		}
		for _, v := range r.Violations {
			if reports[v.Prop] {
				viol = append(viol, vrec{v: v, caseID: r.ID, c: byID[r.ID], trace: r.Trace})
			}
		}
	}
	if len(samples) == 0 {
		for _, r := range results {
			if r.Sample != nil {
				samples = append(samples, r.Sample)
				if len(samples) >= 2 {
					break
				}
			}
		}
	}
	if len(samples) == 0 && len(cases) > 0 {
		samples = append(samples, cases[0])
	}

	// known findings
	ks := loadKnown()
	knownHit := map[string]int{}
	var fresh []vrec
	for _, v := range viol {
		matched := false
		for _, k := range ks {
			if k.prop == v.v.Prop && k.sig == v.v.Sig {
				knownHit[k.text]++
				matched = true
				break
			}
		}
		if !matched {
			fresh = append(fresh, v)
		}
	}
	for text := range knownHit {
		rest := strings.TrimSpace(strings.TrimPrefix(text, "finding:"))
		fmt.Printf("KNOWN-FINDING: %s\n", rest)
	}

	// replays, one per distinct signature
	bySig := map[string][]vrec{}
	var sigs []string
	for _, v := range fresh {
		k := v.v.Prop + " " + v.v.Sig
		if _, ok := bySig[k]; !ok {
			sigs = append(sigs, k)
		}
		bySig[k] = append(bySig[k], v)
	}
	sort.Strings(sigs)
	replayDir := filepath.Join(OutDir(), "replays", prop)
	printed := 0
	for _, k := range sigs {
		vs := bySig[k]
		v := vs[0]
		os.MkdirAll(replayDir, 0755)
		name := fmt.Sprintf("%s-seed%d-%s.json", tier, seed, sigClean(v.v.Sig))
		if len(name) > 120 {
			name = name[:100] + HashOf(name) + ".json"
		}
		path := filepath.Join(replayDir, name)
		var ids []string
		for _, x := range vs {
			if len(ids) < 20 {
				ids = append(ids, x.caseID)
			}
		}
		rb, _ := json.MarshalIndent(map[string]any{
			"property": v.v.Prop, "check": prop, "tier": tier, "seed": seed, "signature": v.v.Sig,
			"detail": v.v.Detail, "case": v.c, "count": len(vs), "case_ids": ids, "trace": v.trace,
			"replay": fmt.Sprintf("VERIF_SEED=%d VERIF_ONLY_CASE=%s ./check %s %s", seed, v.caseID, prop, tier),
		}, "", " ")
		os.WriteFile(path, rb, 0644)
		if printed < 20 {
			fmt.Printf("VIOLATION property=%s replay=%s\n", v.v.Prop, path)
			fmt.Printf("  signature: %s (%d cases, e.g. %s)\n  %s\n", v.v.Sig, len(vs), v.caseID, firstLines(v.v.Detail, 6))
			printed++
		}
	}

	// evidence
	cov := map[string]any{
		"evaluations":         len(results),
		"distinct_nontrivial": len(distinct),
		"rule":                chk.Rule,
		"samples":             samples,
		"observed":            obs,
		"inconclusive":        nInconcl,
		"cases_generated":     len(cases),
	}
	if chk.Race || len(chk.RaceKinds) > 0 {
		cov["race_reports"] = raceReports
	}
	if len(inconclSamples) > 0 {
		cov["inconclusive_samples"] = inconclSamples
	}
	if chk.Exhaustive != nil && chk.Exhaustive(tier) && len(results) == len(cases) && nInconcl == 0 {
		cov["exhaustive"] = true
	}
	if len(knownHit) > 0 {
		cov["known_findings_hit"] = knownHit
	}
	if chk.Post != nil {
		chk.Post(tier, results, cov)
	}
	ev := map[string]any{
		"property_id": prop,
		"tier":        tier,
		"seed":        seed,
		"level":       chk.Level,
		"coverage":    cov,
		"assumptions": chk.Assumptions,
		"wall_s":      float64(int(time.Since(t0).Seconds()*100)) / 100,
		"violations":  len(sigs),
	}
	if os.Getenv("VERIF_ONLY_CASE") == "" {
		os.MkdirAll(filepath.Join(OutDir(), "evidence"), 0755)
		eb, _ := json.MarshalIndent(ev, "", " ")
		os.WriteFile(filepath.Join(OutDir(), "evidence", prop+".json"), append(eb, '\n'), 0644)
	}

	keys := make([]string, 0, len(obs))
	for k := range obs {
		keys = append(keys, k)
	}
	sort.Strings(keys)
	var ob []string
	for _, k := range keys {
		ob = append(ob, fmt.Sprintf("%s=%d", k, obs[k]))
	}
	fmt.Printf("%s %s seed=%d: cases=%d executed=%d nontrivial-distinct=%d inconclusive=%d violations=%d known=%d wall=%.1fs\n  observed: %s\n",
		prop, tier, seed, len(cases), len(results), len(distinct), nInconcl, len(sigs), len(knownHit), time.Since(t0).Seconds(), strings.Join(ob, " "))
	for _, s := range inconclSamples {
		fmt.Println("  inconclusive:", firstLines(s, 2))
	}

	if len(sigs) > 0 {
		return 1
	}
	if os.Getenv("VERIF_ONLY_CASE") != "" {
		return 0
	}
	minNT := 2
	if m, ok := chk.MinNonTrivial[tier]; ok {
		minNT = m
	}
	if len(distinct) < minNT {
		fmt.Printf("INCONCLUSIVE property=%s only %d non-trivial distinct cases (floor %d): nothing decided\n", prop, len(distinct), minNT)
		return 2
	}
	if len(results) < len(cases) {
		fmt.Printf("INCONCLUSIVE property=%s %d of %d cases produced no result\n", prop, len(cases)-len(results), len(cases))
		return 2
	}
	return 0
}

func sigClean(s string) string {
	var b strings.Builder
	for _, r := range s {
		switch {
		case r >= 'a' && r <= 'z', r >= 'A' && r <= 'Z', r >= '0' && r <= '9', r == '-', r == '_', r == '.':
			b.WriteRune(r)
		default:
			b.WriteByte('_')
		}
	}
	out := b.String()
	if len(out) > 80 {
		out = out[:80]
	}
	return out
}

func tail(s string, n int) string {
	if len(s) > n {
		return s[len(s)-n:]
	}
	return s
}

func firstLines(s string, n int) string {
	ls := strings.Split(s, "\n")
	if len(ls) > n {
		ls = ls[:n]
	}
	out := strings.Join(ls, "\n  ")
	if len(out) > 1200 {
		out = out[:1200] + "…"
	}
	return out
}

// Sub holds extra subcommands (crash children etc.) registered by check packages.
var Sub = map[string]func(args []string) int{}
