package core

import (
	"fmt"
	"regexp"
	"runtime"
	"sort"
	"strings"
	"sync/atomic"
	"time"
)

// Activity is bumped by the hook handler on every hook call (schedule point, event, file system
// operation); the stuck-state analysis reads it between two goroutine dumps.
var Activity atomic.Int64

type StuckAnalysis struct {
	// Stable: no hook fired between the dumps, every goroutine with an engine frame is parked in
	// the same frame with a blocking wait reason in both dumps, none is running/runnable/in a syscall.
	Stable   bool     `json:"stable"`
	HookGap  int64    `json:"hook_calls_between_dumps"`
	Blocked  []string `json:"blocked_goroutines"` // "reason @ top engine frame" per goroutine
	Running  []string `json:"running_engine_goroutines"`
	Summary  string   `json:"summary"`
	Dump     string   `json:"dump"`
	WaitedMs int64    `json:"between_dumps_ms"`
}

var gHeader = regexp.MustCompile(`^goroutine (\d+) \[([^\]]+)\]:`)

type gInfo struct {
	id     string
	state  string
	frames []string // function names, top first
}

func parseDump(d string) map[string]gInfo {
	out := map[string]gInfo{}
	for _, blk := range strings.Split(d, "\n\n") {
		lines := strings.Split(strings.TrimSpace(blk), "\n")
		if len(lines) == 0 {
			continue
		}
		m := gHeader.FindStringSubmatch(lines[0])
		if m == nil {
			continue
		}
		g := gInfo{id: m[1], state: m[2]}
		for _, l := range lines[1:] {
			if strings.HasPrefix(l, "\t") || strings.HasPrefix(l, "created by") {
				continue
			}
			fn := l
			if i := strings.LastIndex(fn, "("); i > 0 {
				fn = fn[:i]
			}
			g.frames = append(g.frames, fn)
		}
		out[g.id] = g
	}
	return out
}

const enginePkg = "github.com/B1NARY-GR0UP/originium"

func engineFrame(g gInfo) string {
	for _, f := range g.frames {
		if strings.HasPrefix(f, enginePkg) && !strings.Contains(f, "/pkg/verifhook") {
			return strings.TrimPrefix(f, enginePkg)
		}
	}
	return ""
}

var blockingReasons = []string{"chan send", "chan receive", "select", "sync.Mutex.Lock", "sync.RWMutex.RLock", "sync.RWMutex.Lock", "semacquire", "sync.Cond.Wait", "sync.WaitGroup.Wait"}

func isBlocking(state string) bool {
	for _, r := range blockingReasons {
		if strings.HasPrefix(state, r) {
			return true
		}
	}
	return false
}

func fullDump() string {
	buf := make([]byte, 4<<20)
	n := runtime.Stack(buf, true)
	return string(buf[:n])
}

// AnalyseStuck takes two full goroutine dumps 'gap' apart and decides whether the process is in a
// stable blocked state. The watermark processor goroutines (idle select loops) are ignored.
func AnalyseStuck(gap time.Duration) StuckAnalysis {
	a0 := Activity.Load()
	d1 := fullDump()
	t0 := time.Now()
	time.Sleep(gap)
	d2 := fullDump()
	a1 := Activity.Load()
	an := StuckAnalysis{HookGap: a1 - a0, WaitedMs: time.Since(t0).Milliseconds()}
	g1, g2 := parseDump(d1), parseDump(d2)
	stable := an.HookGap == 0
	nEngine := 0
	for id, b := range g2 {
		ef := engineFrame(b)
		if ef == "" {
			continue
		}
		if strings.Contains(ef, "watermark.(*WaterMark).process") {
			continue // idle event loop of a watermark: always parked in select
		}
		nEngine++
		desc := fmt.Sprintf("%s @ %s", strings.SplitN(b.state, ",", 2)[0], ef)
		if !isBlocking(b.state) {
			an.Running = append(an.Running, desc)
			stable = false
			continue
		}
		an.Blocked = append(an.Blocked, desc)
		a, ok := g1[id]
		if !ok || engineFrame(a) != ef || strings.SplitN(a.state, ",", 2)[0] != strings.SplitN(b.state, ",", 2)[0] {
			stable = false
		}
	}
	sort.Strings(an.Blocked)
	sort.Strings(an.Running)
	if nEngine == 0 {
		stable = false
	}
	an.Stable = stable
	if stable {
		an.Summary = fmt.Sprintf("STABLE BLOCKED STATE: no hook fired for %d ms and %d goroutines are parked inside the engine: %s", an.WaitedMs, len(an.Blocked), strings.Join(an.Blocked, "; "))
	} else {
		an.Summary = fmt.Sprintf("not a stable blocked state (%d hook calls between the dumps, %d engine goroutines blocked, %d running)", an.HookGap, len(an.Blocked), len(an.Running))
	}
	if len(d2) > 60000 {
		d2 = d2[:60000] + "\n…"
	}
	an.Dump = d2
	return an
}
