package core

import (
	"sort"
	"strings"
)

type RaceReport struct {
	Sig  string
	Text string
}

// ParseRaceLog splits a GORACE log into reports and derives a signature from the pair of the
// first non-runtime frames of the two conflicting accesses (order-independent, line numbers stripped).
func ParseRaceLog(log string) []RaceReport {
	var reps []RaceReport
	blocks := strings.Split(log, "==================")
	for _, b := range blocks {
		if !strings.Contains(b, "WARNING: DATA RACE") {
			continue
		}
		lines := strings.Split(b, "\n")
		var firsts []string
		for i := 0; i < len(lines); i++ {
			l := strings.TrimSpace(lines[i])
			isAccess := strings.HasPrefix(l, "Read at ") || strings.HasPrefix(l, "Write at ") ||
				strings.HasPrefix(l, "Previous read at ") || strings.HasPrefix(l, "Previous write at ") ||
				strings.HasPrefix(l, "Atomic") || strings.HasPrefix(l, "Previous atomic")
			if !isAccess {
				continue
			}
			// following lines: function, then file:line, alternating
			for j := i + 1; j+1 < len(lines); j += 2 {
				fn := strings.TrimSpace(lines[j])
				if fn == "" {
					break
				}
				if strings.HasPrefix(fn, "runtime.") || strings.HasPrefix(fn, "sync.") || strings.HasPrefix(fn, "sync/atomic.") ||
					strings.HasPrefix(fn, "bytes.") || strings.HasPrefix(fn, "container/list.") || strings.HasPrefix(fn, "internal/") {
					continue
				}
				fn = strings.TrimSuffix(fn, "()")
				fn = strings.TrimPrefix(fn, "github.com/B1NARY-GR0UP/originium")
				firsts = append(firsts, fn)
				break
			}
		}
		sort.Strings(firsts)
		sig := strings.Join(firsts, "~")
		if sig == "" {
			sig = "unparsed"
		}
		txt := strings.TrimSpace(b)
		if len(txt) > 5000 {
			txt = txt[:5000] + "…"
		}
		reps = append(reps, RaceReport{Sig: sig, Text: txt})
	}
	return reps
}
