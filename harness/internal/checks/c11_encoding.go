package checks

import (
	"bytes"
	"fmt"
	"math"
	"math/rand"
	"os"
	"path/filepath"
	"strings"
	"sync"
	"sync/atomic"

	"github.com/B1NARY-GR0UP/originium/table"
	"github.com/B1NARY-GR0UP/originium/types"
	"github.com/B1NARY-GR0UP/originium/wal"

	"verifharness/internal/core"
	"verifharness/internal/eng"
)

// C11: on-disk encodings round-trip exactly and stay intact after the encoder returns.

var c11Lens = []int{0, 1, 2, 255, 256, 257, 1000, 65535, 65536, 70000, 65535, 65536, 1<<20 - 8, 1 << 20, 1<<20 + 1}

var c11Runes = []rune("城市一二三ключéèêü語言")

func c11Bytes(r *rand.Rand, n int) []byte {
	b := make([]byte, n)
	switch r.Intn(4) {
	case 3: // valid multi-byte UTF-8 whose runes share lead bytes and differ in continuation bytes
		var sb []byte
		for len(sb) < n {
			sb = append(sb, string(c11Runes[r.Intn(len(c11Runes))])...)
		}
		copy(b, sb)
		return b
	case 0:
		r.Read(b)
	case 1:
		for i := range b {
			b[i] = byte('a' + i%3)
		}
	default:
		for i := range b {
			b[i] = byte(r.Intn(4)) // lots of 0x00..0x03
		}
	}
	return b
}

func c11Len(r *rand.Rand, big bool) int {
	if big && r.Intn(6) == 0 {
		return c11Lens[r.Intn(len(c11Lens))]
	}
	switch r.Intn(5) {
	case 0:
		return 0
	case 1:
		return 1 + r.Intn(4)
	case 2:
		return 250 + r.Intn(12)
	default:
		return r.Intn(60)
	}
}

// c11Entries draws a list of entries with shared prefixes of interesting lengths.
func c11Entries(r *rand.Rand, n int, big bool) []types.Entry {
	var es []types.Entry
	prev := ""
	bigBudget := 3
	for i := 0; i < n; i++ {
		var key string
		allowBig := big && bigBudget > 0
		switch r.Intn(4) {
		case 0: // share a prefix of the previous key
			l := 0
			if len(prev) > 0 {
				l = r.Intn(len(prev) + 1)
				if r.Intn(3) == 0 {
					l = len(prev)
				}
			}
			sl := c11Len(r, allowBig)
			if sl >= 65535 {
				bigBudget--
			}
			key = prev[:l] + string(c11Bytes(r, sl))
		case 1: // versioned-looking key
			key = fmt.Sprintf("%s@%d", string(c11Bytes(r, c11Len(r, false))), r.Intn(1000))
		default:
			sl := c11Len(r, allowBig)
			if sl >= 65535 {
				bigBudget--
			}
			key = string(c11Bytes(r, sl))
		}
		vl := c11Len(r, allowBig)
		if vl >= 65535 {
			bigBudget--
		}
		e := types.Entry{Key: key, Value: c11Bytes(r, vl), Tombstone: r.Intn(4) == 0}
		switch r.Intn(8) {
		case 0:
			e.Version = 0
		case 1:
			e.Version = math.MaxInt64
		case 2:
			e.Version = 1
		case 3:
			// the field is an int64: timestamps from 2^63 on are negative there, and every bit counts
			e.Version = []int64{-1, math.MinInt64, math.MinInt64 + 1, -(1 << 32), int64(-r.Int63n(1<<40)) - 1}[r.Intn(5)]
		default:
			e.Version = r.Int63n(1 << 40)
		}
		es = append(es, e)
		prev = key
	}
	return es
}

func c11SameEntry(a, b types.Entry) bool {
	return a.Key == b.Key && bytes.Equal(a.Value, b.Value) && a.Tombstone == b.Tombstone && a.Version == b.Version
}

func c11DescEntry(e types.Entry) string {
	k, v := e.Key, string(e.Value)
	if len(k) > 40 {
		k = fmt.Sprintf("%s…(%d bytes)", k[:40], len(e.Key))
	}
	if len(v) > 40 {
		v = fmt.Sprintf("%s…(%d bytes)", v[:40], len(e.Value))
	}
	return fmt.Sprintf("{key=%q value=%q tomb=%v ver=%d}", k, v, e.Tombstone, e.Version)
}

func c11SameList(got, want []types.Entry) string {
	if len(got) != len(want) {
		return fmt.Sprintf("decoded %d entries, encoded %d", len(got), len(want))
	}
	for i := range want {
		if !c11SameEntry(got[i], want[i]) {
			return fmt.Sprintf("entry %d decoded as %s, encoded %s", i, c11DescEntry(got[i]), c11DescEntry(want[i]))
		}
	}
	return ""
}

func c11LenClass(es []types.Entry) string {
	mx := 0
	for _, e := range es {
		mx = max(mx, len(e.Key), len(e.Value))
	}
	if mx >= 65536 {
		return "len>=65536"
	}
	return "len<65536"
}

// one round-trip of every codec on generated content; returns the number of codec round-trips.
func c11RoundTrip(r *rand.Rand, res *core.Result, big bool, dir string) (n int, lenField256, lcpSeen bool) {
	fail := func(codec, class, f string, a ...any) {
		res.Violate("C11", "C11/roundtrip/"+codec+"/"+class, f, a...)
	}
	// data block
	es := c11Entries(r, 1+r.Intn(30), big)
	for i := 1; i < len(es); i++ {
		l := 0
		for l < len(es[i].Key) && l < len(es[i-1].Key) && es[i].Key[l] == es[i-1].Key[l] {
			l++
		}
		if l > 0 {
			lcpSeen = true
		}
		if len(es[i].Key) >= 256 || len(es[i].Value) >= 256 {
			lenField256 = true
		}
	}
	d := table.Data{Entries: es}
	enc, err := d.Encode()
	if err != nil {
		fail("data", "encode-error", "Data.Encode: %v", err)
		return
	}
	var back table.Data
	if err := back.Decode(enc); err != nil {
		fail("data", c11LenClass(es), "Data.Decode of its own encoding failed: %v (%d entries)", err, len(es))
	} else if diff := c11SameList(back.Entries, es); diff != "" {
		fail("data", c11LenClass(es), "data block: %s", diff)
	}
	n++

	// index block
	var idx table.Index
	idx.DataBlock = table.BlockHandle{Offset: r.Uint64(), Length: r.Uint64()}
	for i := 0; i < r.Intn(12); i++ {
		idx.Entries = append(idx.Entries, table.IndexEntry{StartKey: string(c11Bytes(r, c11Len(r, big && i == 0))), EndKey: string(c11Bytes(r, c11Len(r, big && i == 1))),
			DataHandle: table.BlockHandle{Offset: r.Uint64(), Length: r.Uint64()}})
	}
	ienc, err := idx.Encode()
	if err != nil {
		fail("index", "encode-error", "Index.Encode: %v", err)
		return
	}
	var iback table.Index
	if err := iback.Decode(ienc); err != nil {
		fail("index", "decode-error", "Index.Decode of its own encoding failed: %v", err)
	} else {
		same := iback.DataBlock == idx.DataBlock && len(iback.Entries) == len(idx.Entries)
		for i := 0; same && i < len(idx.Entries); i++ {
			same = iback.Entries[i] == idx.Entries[i]
		}
		if !same {
			cls := "len<65536"
			for _, e := range idx.Entries {
				if len(e.StartKey) >= 65536 || len(e.EndKey) >= 65536 {
					cls = "len>=65536"
				}
			}
			fail("index", cls, "index block with %d entries does not round-trip", len(idx.Entries))
		}
	}
	n++

	// footer, meta
	// boundary values first, random ones otherwise
	u64 := func() uint64 {
		switch r.Intn(6) {
		case 0:
			return 0
		case 1:
			return 1
		case 2:
			return math.MaxUint64
		}
		return r.Uint64()
	}
	i64 := func() int64 {
		switch r.Intn(6) {
		case 0:
			return 0
		case 1:
			return -1
		case 2:
			return math.MaxInt64
		case 3:
			return math.MinInt64
		}
		return r.Int63() - r.Int63()
	}
	ft := table.Footer{MetaBlock: table.BlockHandle{Offset: u64(), Length: u64()}, IndexBlock: table.BlockHandle{Offset: u64(), Length: u64()}}
	// the magic is private: take it from a real table
	_, tb := table.Build([]types.Entry{{Key: "k@1", Value: []byte("v"), Version: 1}}, 100, 0)
	var realFooter table.Footer
	if err := realFooter.Decode(tb[len(tb)-40:]); err != nil {
		fail("footer", "decode-error", "footer of a built table does not decode: %v", err)
	} else {
		ft.Magic = realFooter.Magic
		fenc, err := ft.Encode()
		var fback table.Footer
		if err != nil {
			fail("footer", "encode-error", "%v", err)
		} else if len(fenc) != 40 {
			fail("footer", "size", "footer encodes to %d bytes", len(fenc))
		} else if err := fback.Decode(fenc); err != nil || fback != ft {
			fail("footer", "mismatch", "footer %+v decoded as %+v (%v)", ft, fback, err)
		}
	}
	mt := table.Meta{CreatedUnix: i64(), Level: u64()}
	menc, err := mt.Encode()
	var mback table.Meta
	if err != nil {
		fail("meta", "encode-error", "%v", err)
	} else if err := mback.Decode(menc); err != nil || mback != mt {
		fail("meta", "mismatch", "meta %+v decoded as %+v (%v)", mt, mback, err)
	}
	n += 2

	// whole table, read back the way recovery and lookups read it
	tes := c11Entries(r, 1+r.Intn(40), big)
	bs := []int{1, 32, 200, 4096, 1 << 20}[r.Intn(5)]
	level := r.Intn(7)
	tindex, tbytes := table.Build(tes, bs, level)
	if msg := c11ReadTable(tbytes, tindex, tes, level); msg != "" {
		fail("table", c11LenClass(tes), "table.Build(%d entries, block %d, level %d): %s", len(tes), bs, level, msg)
	}
	n++

	// wal record sequences
	if dir != "" {
		wd := filepath.Join(dir, fmt.Sprintf("wal%d", r.Int63()))
		mustMkdir(wd)
		defer os.RemoveAll(wd)
		w, err := wal.Create(wd)
		if err != nil {
			fail("wal", "create-error", "%v", err)
			return
		}
		var all []types.Entry
		batches := 1 + r.Intn(5)
		for b := 0; b < batches; b++ {
			batch := c11Entries(r, 1+r.Intn(5), big && b == 0)
			if err := w.Write(batch...); err != nil {
				fail("wal", "write-error", "%v", err)
				return
			}
			all = append(all, batch...)
		}
		got, err := w.Read()
		if err != nil {
			fail("wal", "read-error", "WAL.Read after %d writes: %v", batches, err)
		} else if diff := c11SameList(got, all); diff != "" {
			fail("wal", c11LenClass(all), "wal read-back: %s", diff)
		}
		w.Close()
		files, _ := filepath.Glob(filepath.Join(wd, "*.log"))
		if len(files) == 1 {
			w2, err := wal.Open(files[0])
			if err != nil {
				fail("wal", "open-error", "%v", err)
			} else {
				more := c11Entries(r, 1+r.Intn(3), false)
				if err := w2.Write(more...); err != nil {
					fail("wal", "write-error", "%v", err)
				}
				all = append(all, more...)
				got, err := w2.Read()
				if err != nil {
					fail("wal", "read-error", "WAL.Read after reopen: %v", err)
				} else if diff := c11SameList(got, all); diff != "" {
					fail("wal", c11LenClass(all), "wal read-back after reopen+append: %s", diff)
				}
				w2.Delete()
			}
		} else {
			fail("wal", "files", "wal directory holds %d log files", len(files))
		}
		n++
	}
	return
}

// c11ReadTable decodes a table image: footer -> index -> (whole data region | block by block) -> meta.
func c11ReadTable(tb []byte, tindex table.Index, want []types.Entry, level int) string {
	if len(tb) < 40 {
		return fmt.Sprintf("table image has %d bytes", len(tb))
	}
	var ft table.Footer
	if err := ft.Decode(tb[len(tb)-40:]); err != nil {
		return fmt.Sprintf("footer: %v", err)
	}
	inRange := func(h table.BlockHandle) bool {
		return h.Offset <= uint64(len(tb)) && h.Length <= uint64(len(tb))-h.Offset
	}
	if !inRange(ft.IndexBlock) || !inRange(ft.MetaBlock) {
		return fmt.Sprintf("footer handles out of range: %+v (image %d bytes)", ft, len(tb))
	}
	var idx table.Index
	if err := idx.Decode(tb[ft.IndexBlock.Offset : ft.IndexBlock.Offset+ft.IndexBlock.Length]); err != nil {
		return fmt.Sprintf("index: %v", err)
	}
	if idx.DataBlock != tindex.DataBlock || len(idx.Entries) != len(tindex.Entries) {
		return fmt.Sprintf("stored index (%d blocks, data %+v) differs from the returned index (%d blocks, data %+v)", len(idx.Entries), idx.DataBlock, len(tindex.Entries), tindex.DataBlock)
	}
	for i := range idx.Entries {
		if idx.Entries[i] != tindex.Entries[i] {
			return fmt.Sprintf("stored index entry %d differs from the returned one", i)
		}
	}
	if !inRange(idx.DataBlock) {
		return fmt.Sprintf("data region out of range: %+v", idx.DataBlock)
	}
	var whole table.Data
	if err := whole.Decode(tb[idx.DataBlock.Offset : idx.DataBlock.Offset+idx.DataBlock.Length]); err != nil {
		return fmt.Sprintf("data region: %v", err)
	}
	if diff := c11SameList(whole.Entries, want); diff != "" {
		return "data region: " + diff
	}
	pos := 0
	for i, ie := range idx.Entries {
		if !inRange(ie.DataHandle) {
			return fmt.Sprintf("block %d out of range", i)
		}
		var blk table.Data
		if err := blk.Decode(tb[ie.DataHandle.Offset : ie.DataHandle.Offset+ie.DataHandle.Length]); err != nil {
			return fmt.Sprintf("block %d: %v", i, err)
		}
		if len(blk.Entries) == 0 || pos+len(blk.Entries) > len(want) {
			return fmt.Sprintf("block %d holds %d entries at position %d of %d", i, len(blk.Entries), pos, len(want))
		}
		if diff := c11SameList(blk.Entries, want[pos:pos+len(blk.Entries)]); diff != "" {
			return fmt.Sprintf("block %d: %s", i, diff)
		}
		if ie.StartKey != blk.Entries[0].Key || ie.EndKey != blk.Entries[len(blk.Entries)-1].Key {
			return fmt.Sprintf("block %d: index range [%q,%q] but block holds [%q,%q]", i, ie.StartKey, ie.EndKey, blk.Entries[0].Key, blk.Entries[len(blk.Entries)-1].Key)
		}
		pos += len(blk.Entries)
	}
	if pos != len(want) {
		return fmt.Sprintf("blocks hold %d entries, table was built from %d", pos, len(want))
	}
	var mt table.Meta
	if err := mt.Decode(tb[ft.MetaBlock.Offset : ft.MetaBlock.Offset+ft.MetaBlock.Length]); err != nil {
		return fmt.Sprintf("meta: %v", err)
	}
	if mt.Level != uint64(level) {
		return fmt.Sprintf("meta level %d, built for level %d", mt.Level, level)
	}
	return ""
}

// stability: every slice an encoder returned is cloned at return and must still equal its clone
// after this goroutine and others have encoded and logged more.
type c11Held struct {
	what  string
	live  []byte
	clone []byte
}

func c11Stability(c core.Case, res *core.Result) {
	G := int(c.Int("goroutines", 4))
	rounds := int(c.Int("rounds", 100))
	dir := filepath.Join(core.WorkerScratch(), c.ID)
	mustMkdir(dir)
	defer os.RemoveAll(dir)
	var active, overlapped atomic.Int64
	var mu sync.Mutex
	var firstBad string
	checked := atomic.Int64{}
	// one wal shared by all goroutines: every batch must come back whole, in order and contiguous
	sharedDir := filepath.Join(dir, "shared")
	mustMkdir(sharedDir)
	shared, serr := wal.Create(sharedDir)
	var smu sync.Mutex
	sharedBatches := map[string][]types.Entry{} // first key of the batch (unique) -> batch
	var wg sync.WaitGroup
	for g := 0; g < G; g++ {
		wg.Add(1)
		go func(g int) {
			defer wg.Done()
			r := rand.New(rand.NewSource(c.Seed + int64(g)*7919))
			wd := filepath.Join(dir, fmt.Sprintf("g%d", g))
			mustMkdir(wd)
			w, err := wal.Create(wd)
			if err != nil {
				return
			}
			defer w.Delete()
			var held []c11Held
			// decoded blocks are held as well: what Decode returned must still equal what was encoded
			// after further encodings and decodings (a decoder whose result aliases a pooled buffer)
			type heldDec struct{ got, want []types.Entry }
			var heldD []heldDec
			verify := func() {
				for _, h := range heldD {
					checked.Add(1)
					if d := c11SameList(h.got, h.want); d != "" {
						mu.Lock()
						if firstBad == "" {
							firstBad = fmt.Sprintf("Data.Decode: the decoded entries changed after later encodings/decodings while %d goroutines were working: %s", G, d)
						}
						mu.Unlock()
					}
				}
				heldD = heldD[:0]
				for _, h := range held {
					checked.Add(1)
					if !bytes.Equal(h.live, h.clone) {
						mu.Lock()
						if firstBad == "" {
							i := 0
							for i < len(h.live) && i < len(h.clone) && h.live[i] == h.clone[i] {
								i++
							}
							firstBad = fmt.Sprintf("%s: the %d bytes returned by the encoder changed afterwards (first difference at offset %d) while %d goroutines were encoding", h.what, len(h.clone), i, G)
						}
						mu.Unlock()
					}
				}
				held = held[:0]
			}
			for i := 0; i < rounds; i++ {
				if active.Add(1) > 1 {
					overlapped.Add(1)
				}
				es := c11Entries(r, 1+r.Intn(8), false)
				hold := func(what string, b []byte) {
					held = append(held, c11Held{what, b, bytes.Clone(b)})
				}
				switch r.Intn(6) {
				case 0:
					d := table.Data{Entries: es}
					if b, err := d.Encode(); err == nil {
						hold("Data.Encode", b)
						var back table.Data
						if back.Decode(b) == nil && c11SameList(back.Entries, es) == "" {
							want := make([]types.Entry, len(es))
							for k, e := range es {
								want[k] = e
								want[k].Value = bytes.Clone(e.Value)
							}
							heldD = append(heldD, heldDec{back.Entries, want})
						}
					}
				case 1:
					idx := table.Index{Entries: []table.IndexEntry{{StartKey: es[0].Key, EndKey: es[len(es)-1].Key, DataHandle: table.BlockHandle{Offset: 1, Length: 2}}}}
					if b, err := idx.Encode(); err == nil {
						hold("Index.Encode", b)
					}
				case 2:
					f := table.Footer{MetaBlock: table.BlockHandle{Offset: uint64(i), Length: 7}, Magic: 1}
					if b, err := f.Encode(); err == nil {
						hold("Footer.Encode", b)
					}
				case 3:
					m := table.Meta{CreatedUnix: int64(i), Level: uint64(g)}
					if b, err := m.Encode(); err == nil {
						hold("Meta.Encode", b)
					}
				case 4:
					_, b := table.Build(es, []int{1, 64, 4096}[r.Intn(3)], 0)
					hold("table.Build", b)
				default:
					w.Write(es...)
					if serr == nil && len(es) > 0 {
						id := fmt.Sprintf("batch-g%d-%d", g, i)
						es[0].Key = id
						smu.Lock()
						sharedBatches[id] = es
						smu.Unlock()
						shared.Write(es...)
					}
				}
				active.Add(-1)
				if len(held)+len(heldD) >= 1+r.Intn(6) {
					verify()
				}
			}
			verify()
		}(g)
	}
	wg.Wait()
	if firstBad != "" {
		res.Violate("C11", "C11/stability/bytes-changed", "%s", firstBad)
	}
	if serr == nil {
		got, err := shared.Read()
		if err != nil {
			res.Violate("C11", "C11/wal-shared/read-error", "Read of a wal written by %d goroutines concurrently: %v", G, err)
		} else {
			n := 0
			for i := 0; i < len(got); {
				b, ok := sharedBatches[got[i].Key]
				if !ok || i+len(b) > len(got) {
					res.Violate("C11", "C11/wal-shared/interleaved", "record %d of the shared wal (key %q) does not start a batch that was written (batches of concurrent writers are interleaved or damaged)", i, got[i].Key)
					break
				}
				if diff := c11SameList(got[i:i+len(b)], b); diff != "" {
					res.Violate("C11", "C11/wal-shared/batch-damaged", "batch %q of the shared wal: %s", got[i].Key, diff)
					break
				}
				i += len(b)
				n++
			}
			if res.Verdict == "" && n != len(sharedBatches) {
				res.Violate("C11", "C11/wal-shared/batch-lost", "shared wal holds %d batches, %d were written", n, len(sharedBatches))
			}
			res.AddObs("shared_wal_batches", int64(n))
			// several goroutines read the same handle at once: each has to get the whole sequence
			if res.Verdict == "" && G > 1 {
				var rwg sync.WaitGroup
				var rmu sync.Mutex
				bad := ""
				for g := 0; g < min(G, 6); g++ {
					rwg.Add(1)
					go func(g int) {
						defer rwg.Done()
						for k := 0; k < 3; k++ {
							var again []types.Entry
							var rerr error
							p := eng.Safely(func() { again, rerr = shared.Read() })
							msg := ""
							switch {
							case p != "":
								msg = "panic: " + p
							case rerr != nil:
								msg = "error: " + rerr.Error()
							case len(again) != len(got):
								msg = fmt.Sprintf("%d records, the wal holds %d", len(again), len(got))
							default:
								msg = c11SameList(again, got)
							}
							if msg != "" {
								rmu.Lock()
								if bad == "" {
									bad = fmt.Sprintf("reader %d, read %d: %s", g, k, msg)
								}
								rmu.Unlock()
								return
							}
						}
					}(g)
				}
				rwg.Wait()
				if bad != "" {
					res.Violate("C11", "C11/wal-shared/concurrent-read", "concurrent Read calls on one wal handle do not all return the written sequence: %s", bad)
				}
				res.AddObs("shared_wal_concurrent_reads", int64(3*min(G, 6)))
			}
		}
		shared.Delete()
	}
	res.AddObs("stability_slices_checked", checked.Load())
	res.AddObs("stability_overlapping_encodings", overlapped.Load())
	res.NonTrivial = overlapped.Load() > 0 || G == 1
	res.Hash = fmt.Sprintf("stab-%d-%d-%d", c.Seed, G, rounds)
}

func runC11(c core.Case) core.Result {
	var res core.Result
	switch c.Kind {
	case "roundtrip":
		r := rand.New(rand.NewSource(c.Seed))
		n := int(c.Int("reps", 10))
		dir := filepath.Join(core.WorkerScratch(), c.ID)
		mustMkdir(dir)
		defer os.RemoveAll(dir)
		total, nt := 0, 0
		for i := 0; i < n && res.Verdict == ""; i++ {
			k, l256, lcp := c11RoundTrip(r, &res, c.Int("big", 0) == 1, dir)
			total += k
			if l256 || lcp {
				nt++
			}
		}
		res.AddObs("codec_roundtrips", int64(total))
		res.AddObs("rounds_with_len>=256_or_lcp>0", int64(nt))
		if c.Int("big", 0) == 1 {
			res.AddObs("rounds_with_64KiB_fields", int64(n))
		}
		res.NonTrivial = nt > 0
		res.Hash = fmt.Sprintf("rt-%d-%d", c.Seed, c.Int("big", 0))
		if c.Int("sample", 0) == 1 {
			es := c11Entries(rand.New(rand.NewSource(c.Seed)), 3, false)
			var d []string
			for _, e := range es {
				d = append(d, c11DescEntry(e))
			}
			res.Sample = map[string]any{"kind": "roundtrip", "reps": n, "codecs": "Data, Index, Footer, Meta, table.Build+read-back, WAL write/read/reopen", "first_entries": strings.Join(d, " ")}
		}
	case "huge":
		// one very large value (16 MiB + 1 ... 20 MiB) among normal ones: wal record sequence, data
		// block and whole table must still round-trip
		r := rand.New(rand.NewSource(c.Seed))
		dir := filepath.Join(core.WorkerScratch(), c.ID)
		mustMkdir(dir)
		defer os.RemoveAll(dir)
		big := c11Bytes(r, (16<<20)+1+r.Intn(4<<20))
		es := []types.Entry{{Key: "small@1", Value: []byte("s"), Version: 1}, {Key: "huge@2", Value: big, Version: 2}, {Key: "after@3", Value: []byte("t"), Version: 3}, {Key: "last@4", Value: c11Bytes(r, 1<<20), Version: 4}}
		w, err := wal.Create(dir)
		if err != nil {
			res.Violate("C11", "C11/roundtrip/wal/create-error", "%v", err)
			break
		}
		for _, e := range es {
			if err := w.Write(e); err != nil {
				res.Violate("C11", "C11/roundtrip/wal/write-error", "%v", err)
			}
		}
		got, err := w.Read()
		if err != nil {
			res.Violate("C11", "C11/roundtrip/wal/read-error", "WAL.Read with a %d byte value: %v", len(big), err)
		} else if diff := c11SameList(got, es); diff != "" {
			res.Violate("C11", "C11/roundtrip/wal/len>=16MiB", "wal read-back with a %d byte value: %s", len(big), diff)
		}
		w.Delete()
		d := table.Data{Entries: es}
		if enc, err := d.Encode(); err != nil {
			res.Violate("C11", "C11/roundtrip/data/encode-error", "%v", err)
		} else {
			var back table.Data
			if err := back.Decode(enc); err != nil {
				res.Violate("C11", "C11/roundtrip/data/len>=16MiB", "Data.Decode with a %d byte value: %v", len(big), err)
			} else if diff := c11SameList(back.Entries, es); diff != "" {
				res.Violate("C11", "C11/roundtrip/data/len>=16MiB", "data block with a %d byte value: %s", len(big), diff)
			}
		}
		tindex, tbytes := table.Build(es, 4096, 0)
		if msg := c11ReadTable(tbytes, tindex, es, 0); msg != "" {
			res.Violate("C11", "C11/roundtrip/table/len>=16MiB", "table.Build with a %d byte value: %s", len(big), msg)
		}
		res.AddObs("huge_value_roundtrips", 3)
		res.NonTrivial = true
		res.Hash = fmt.Sprintf("huge-%d", c.Seed)
	case "stability", "stability-race":
		c11Stability(c, &res)
		if c.Int("sample", 0) == 1 {
			res.Sample = map[string]any{"kind": c.Kind, "goroutines": c.Int("goroutines", 4), "rounds": c.Int("rounds", 100)}
		}
	}
	return res
}

func genC11(tier string, seed int64) []core.Case {
	nrt, nst, nrace := 500, 8, 6
	rounds, raceRounds := int64(300), int64(12)
	if tier == "thorough" {
		nrt, nst, nrace = 8000, 32, 24
		rounds, raceRounds = 600, 30
	}
	r := rand.New(rand.NewSource(seed*49979687 + 11))
	var cs []core.Case
	for i := 0; i < nrt; i++ {
		c := core.Case{ID: fmt.Sprintf("rt%05d", i), Kind: "roundtrip", Seed: r.Int63(), N: map[string]int64{"reps": 10}}
		if i%10 == 0 {
			c.N["big"] = 1
			c.N["reps"] = 3
		}
		if i == 1 {
			c.N["sample"] = 1
		}
		cs = append(cs, c)
	}
	nhuge := 2
	if tier == "thorough" {
		nhuge = 12
	}
	for i := 0; i < nhuge; i++ {
		cs = append(cs, core.Case{ID: fmt.Sprintf("huge%02d", i), Kind: "huge", Seed: r.Int63()})
	}
	for i := 0; i < nst; i++ {
		c := core.Case{ID: fmt.Sprintf("stab%03d", i), Kind: "stability", Seed: r.Int63(), N: map[string]int64{"goroutines": int64([]int{1, 2, 4, 8, 16}[i%5]), "rounds": rounds}}
		if i == 2 {
			c.N["sample"] = 1
		}
		cs = append(cs, c)
	}
	for i := 0; i < nrace; i++ {
		cs = append(cs, core.Case{ID: fmt.Sprintf("race%03d", i), Kind: "stability-race", Seed: r.Int63(), N: map[string]int64{"goroutines": int64([]int{2, 4, 8}[i%3]), "rounds": raceRounds}})
	}
	return cs
}

func init() {
	core.Register(&core.Check{
		Prop: "C11", Level: "exploration",
		Rule: "roundtrip cases: 10 rounds each of decode(encode(x)) == x for Data, Index, Footer, Meta, table.Build read back through footer->index->data region and block by block->meta, and WAL write/read/reopen/append sequences, over generated entries (binary and empty keys/values, shared prefixes, lengths 0/1/255/256/65535/65536/70000/2^20-8/2^20/2^20+1 in every tenth case, versions 0/1/2^63-1 and negative ones (-1, -2^63, -2^32), tombstones, block sizes 1..1MiB), plus 'huge' cases with one 16-20 MiB value in a wal sequence, a data block and a table; stability cases: 1-16 goroutines encode and log concurrently, every returned slice is cloned at return and compared with its clone after further encodings (value check) while they also append batches to one shared wal whose read-back must hold every batch whole, contiguous and in order (read once, then by up to 6 goroutines at the same time), and the same workload with smaller counts under the race detector (a reused pool buffer is reported as a race); non-trivial = a round with a length field >= 256 or a shared prefix > 0 / encodings that overlapped in time; distinct by seed",
		Gen:  genC11, Run: runC11, BatchSize: 4, GoMaxProcs: 4, Parallel: 6,
		RaceKinds:     map[string]bool{"stability-race": true},
		MinNonTrivial: map[string]int{"quick": 100, "thorough": 4000},
		Assumptions:   []string{"nil and empty byte strings are the same value", "the race detector sees only executed, instrumented accesses"},
	})
}
