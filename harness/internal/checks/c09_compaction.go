package checks

import (
	"fmt"
	"math/rand"
	"os"
	"path/filepath"
	"sort"
	"strings"

	"verifharness/internal/gen"

	"github.com/B1NARY-GR0UP/originium"
	"github.com/B1NARY-GR0UP/originium/types"

	"verifharness/internal/core"
)

// C09: compaction never changes the answer of any permitted read.

func entriesToSet(lists [][]types.Entry) (entrySet, []string) {
	var ts []originium.VerifTable
	for _, l := range lists {
		ts = append(ts, originium.VerifTable{Entries: l})
	}
	s, conflicts, _ := dumpToSet(ts)
	return s, conflicts
}

// judgeCompaction decides one compaction from its inputs, its output and the watermark it used.
// Returns "" or (signature suffix, explanation).
func judgeCompaction(inputs [][]types.Entry, output []types.Entry, low uint64) (string, string) {
	pre, conflicts := entriesToSet(inputs)
	if len(conflicts) > 0 {
		// inputs themselves inconsistent: the defect is upstream (not this compaction's), still report
		return "inputs-inconsistent", strings.Join(conflicts, "; ")
	}
	if p := tableOrderProblem([]originium.VerifTable{{Entries: output}}); p != "" {
		return "output-unsorted", p
	}
	post, conflicts := entriesToSet([][]types.Entry{output})
	if len(conflicts) > 0 {
		return "output-inconsistent", strings.Join(conflicts, "; ")
	}
	// nothing appears, nothing changes
	for u, m := range post {
		for ts, e := range m {
			old, ok := pre[u][ts]
			if !ok {
				return "entry-appeared", fmt.Sprintf("output holds %s which no input held", e)
			}
			if old.Val != e.Val || old.Tomb != e.Tomb {
				return "entry-changed", fmt.Sprintf("input %s became %s", old, e)
			}
		}
	}
	// only versions shadowed at or below the watermark may disappear
	for u, m := range pre {
		for ts, e := range m {
			if _, ok := post[u][ts]; ok {
				continue
			}
			shadow := false
			for ts2 := range m {
				if ts2 > ts && ts2 <= low {
					shadow = true
				}
			}
			if !shadow {
				kind := "version-lost"
				if e.Tomb {
					kind = "tombstone-lost"
				}
				return kind, fmt.Sprintf("%s disappeared although no newer version of %q exists at or below the watermark %d (versions of the key in the inputs: %v)", e, u, low, versionsOf(m))
			}
		}
	}
	// every permitted read answers the same
	for u := range pre {
		for _, ts := range pre.tsProbes(u, low, low+1) {
			if ts < low {
				continue
			}
			a, aok := pre.lookup(u, ts)
			b, bok := post.lookup(u, ts)
			if aok != bok || a != b {
				return "answer-changed", fmt.Sprintf("read of %q at ts %d (watermark %d): %s before, %s after", u, ts, low, descWant(a, aok), descWant(b, bok))
			}
		}
	}
	return "", ""
}

func versionsOf(m map[uint64]vEntry) []uint64 {
	var v []uint64
	for t := range m {
		v = append(v, t)
	}
	sort.Slice(v, func(i, j int) bool { return v[i] > v[j] })
	return v
}

// judgeDirStep compares whole-directory dumps before and after one compaction step.
func judgeDirStep(before, after []originium.VerifTable, low uint64) (string, string) {
	if p := tableOrderProblem(after); p != "" {
		return "table-unsorted", p
	}
	var in [][]types.Entry
	for _, t := range before {
		in = append(in, t.Entries)
	}
	pre, c1 := entriesToSet(in)
	if len(c1) > 0 {
		return "pre-inconsistent", strings.Join(c1, "; ")
	}
	var out [][]types.Entry
	for _, t := range after {
		out = append(out, t.Entries)
	}
	post, c2 := entriesToSet(out)
	if len(c2) > 0 {
		return "post-inconsistent", strings.Join(c2, "; ")
	}
	for u, m := range post {
		for ts, e := range m {
			old, ok := pre[u][ts]
			if !ok {
				return "entry-appeared", fmt.Sprintf("directory holds %s which it did not hold before", e)
			}
			if old.Val != e.Val || old.Tomb != e.Tomb {
				return "entry-changed", fmt.Sprintf("%s became %s", old, e)
			}
		}
	}
	for u, m := range pre {
		for ts, e := range m {
			if _, ok := post[u][ts]; ok {
				continue
			}
			shadow := false
			for ts2 := range m {
				if ts2 > ts && ts2 <= low {
					shadow = true
				}
			}
			if !shadow {
				kind := "version-lost"
				if e.Tomb {
					kind = "tombstone-lost"
				}
				return kind, fmt.Sprintf("%s is gone from the directory although no newer version of %q exists at or below the watermark %d (versions before: %v)", e, u, low, versionsOf(m))
			}
		}
	}
	return "", ""
}

// runC09db runs a sequential database workload and keeps only the verdicts of the in-situ
// compaction oracle: every real compaction (real watermark, real table contents) is judged.
func runC09db(c core.Case) core.Result {
	r := runSeq(c, "C09", false)
	var keep []core.Violation
	for _, v := range r.Violations {
		if strings.Contains(v.Sig, "insitu-compaction") {
			keep = append(keep, v)
		}
	}
	r.Violations = keep
	if len(keep) == 0 && r.Verdict == "violation" {
		r.Verdict = "ok" // read mismatches are C01's business; here only compactions are judged
	}
	n := int64(0)
	for k, v := range r.Obs {
		if strings.HasPrefix(k, "compact.L") {
			n += v
		}
	}
	r.AddObs("insitu_compactions_judged", n)
	r.NonTrivial = n > 0 && r.Obs["discard.low>0"] > 0 && r.Obs["discard.dropped"] > 0
	return r
}

// runC09Recovered: many small tables (file indices with one and two digits), handles rebuilt by
// recovery, then further flushes and compactions ON THE RECOVERED HANDLES; every step is judged like
// a direct case.
func runC09Recovered(c core.Case) core.Result {
	var res core.Result
	r := rand.New(rand.NewSource(c.Seed))
	dir := filepath.Join(core.WorkerScratch(), c.ID)
	mustMkdir(dir)
	defer os.RemoveAll(dir)
	l0 := 12 + r.Intn(4) // no automatic compaction while the tables pile up
	lv := originium.VerifNewLevels(dir, l0, 1+r.Intn(3), gen.BlockThresholds[r.Intn(len(gen.BlockThresholds))])
	defer lv.Close()
	set := entrySet{}
	users := gen.Keys(r, []string{"windowed", "hostile", "plain"}[r.Intn(3)], 14)
	sort.Strings(users)
	ts := uint64(1)
	flushOne := func(v *originium.VerifLevels, i int) bool {
		var es []vEntry
		if r.Intn(3) == 0 {
			es = append(es, contentFor(users[r.Intn(len(users))], ts, 4)) // overlaps something older
		} else {
			es = append(es, contentFor(users[i%len(users)], ts, 0))
		}
		ts++
		if r.Intn(2) == 0 {
			es = append(es, contentFor(users[(i+1)%len(users)], ts, 5))
			ts++
		}
		sortEntries(es)
		uniq := es[:0]
		for j, e := range es {
			if j == 0 || e.User != es[j-1].User || e.Ts != es[j-1].Ts {
				uniq = append(uniq, e)
			}
		}
		if err := v.Flush(toEntries(uniq)); err != nil {
			res.Violate("C09", "C09/flush-error", "%v", err)
			return false
		}
		for _, e := range uniq {
			set.add(e)
		}
		return true
	}
	n := 10 + r.Intn(3)
	for i := 0; i < n; i++ {
		if !flushOne(lv, i) {
			return res
		}
	}
	if r.Intn(2) == 0 {
		lv.CompactL0() // the front table and whatever overlaps it move to L1; the others stay
	}
	rv, _ := lv.Recover()
	defer rv.Close()
	var steps []string
	absent := []string{"nope", "\x00"}
	for s := 0; s < 2+r.Intn(4) && res.Verdict == ""; s++ {
		before := rv.Tables()
		var what string
		switch r.Intn(4) {
		case 0, 1:
			what = "Flush"
			if !flushOne(rv, n+s) {
				return res
			}
		case 2:
			what = "CompactL0"
			rv.CompactL0()
		default:
			what = "CheckAndCompact"
			rv.CheckAndCompact()
		}
		steps = append(steps, fmt.Sprintf("%s[levels=%v]", what, rv.LevelLens()))
		if what != "Flush" {
			if sig, d := judgeDirStep(before, rv.Tables(), 0); sig != "" {
				res.Violate("C09", "C09/recovered-handles/dump/"+sig, "%s\nafter recovery of %d tables, steps on the recovered handles: %s", d, n, strings.Join(steps, " ; "))
				break
			}
		}
		n0 := len(res.Violations)
		checkLookups(rv, set, users, absent, "recovered-handles-after-"+what, 0, &res, "C09", "C09/lookup")
		if len(res.Violations) > n0 {
			res.Violations[len(res.Violations)-1].Detail += fmt.Sprintf("\nafter recovery of %d tables, steps on the recovered handles: %s", n, strings.Join(steps, " ; "))
		}
	}
	if res.Verdict == "" {
		// and what a second recovery finds on disk is the same again
		rv2, _ := rv.Recover()
		checkLookups(rv2, set, users, absent, "second-recovery", 0, &res, "C09", "C09/lookup")
		rv2.Close()
	}
	res.AddObs("recovered_continue_cases", 1)
	res.AddObs("tables_at_recovery", int64(n))
	res.NonTrivial = n >= 11
	res.Hash = core.HashOf([]any{c.Seed, steps})
	return res
}

func runC09(c core.Case) core.Result {
	if c.Kind == "db" {
		return runC09db(c)
	}
	if c.Kind == "recovered" {
		return runC09Recovered(c)
	}
	var res core.Result
	r := rand.New(rand.NewSource(c.Seed))
	base := core.WorkerScratch()
	ls := genLayout(r, c.Str("keys", "hostile"), 12, 40)
	disjoint := c.Int("disjoint", 0) == 1
	if disjoint {
		// most flushes get a key window of their own: levels below L0 then hold several disjoint
		// tables, and a table pushed down often meets nothing to merge with
		for fi, f := range ls.Flushes {
			if r.Intn(7) == 0 {
				continue
			}
			for i := range f {
				f[i].User = fmt.Sprintf("w%02d-%s", fi, f[i].User)
			}
			sortEntries(f)
		}
	}
	dir := filepath.Join(base, c.ID)
	mustMkdir(dir)
	defer os.RemoveAll(dir)
	lv := originium.VerifNewLevels(dir, ls.L0, ls.Ratio, ls.BlockSize)
	defer lv.Close()
	set := entrySet{}
	var maxTs uint64
	var allTs []uint64
	flushed := 0
	flush := func(f []vEntry) bool {
		if err := lv.Flush(toEntries(f)); err != nil {
			res.Violate("C09", "C09/flush-error", "flush: %v", err)
			return false
		}
		flushed++
		for _, e := range f {
			set.add(e)
			allTs = append(allTs, e.Ts)
			if e.Ts > maxTs {
				maxTs = e.Ts
			}
		}
		return true
	}
	// initial tables: all flushes but possibly the last two, which arrive between compactions
	keep := r.Intn(3)
	if keep > len(ls.Flushes)-1 {
		keep = 0
	}
	for _, f := range ls.Flushes[:len(ls.Flushes)-keep] {
		if !flush(f) {
			return res
		}
	}
	later := ls.Flushes[len(ls.Flushes)-keep:]
	var low uint64
	pickLow := func() uint64 {
		switch r.Intn(6) {
		case 0:
			return low
		case 1:
			return 1
		case 2:
			return allTs[r.Intn(len(allTs))]
		case 3:
			return allTs[r.Intn(len(allTs))] + 1
		case 4:
			return maxTs
		default:
			return maxTs + 5
		}
	}
	if r.Intn(3) > 0 {
		if w := pickLow(); w > low {
			lv.SetWatermark(w)
			low = w
		}
	}
	var steps []string
	compactions, dropped := 0, 0
	nsteps := 1 + r.Intn(5)
	if disjoint {
		nsteps = 4 + r.Intn(7)
	}
	fail := func(sig, detail string) {
		res.Violate("C09", "C09/"+sig, "%s\nsteps: %s\nlayout: %v", detail, strings.Join(steps, " ; "), describeLayout(ls))
	}
	absent := []string{"nope", "a!!", "\x00"}
	for s := 0; s < nsteps && res.Verdict == ""; s++ {
		before := lv.Tables()
		lens := lv.LevelLens()
		var did bool
		var what string
		x := r.Intn(10)
		if disjoint && x >= 5 && x < 8 && r.Intn(3) > 0 {
			x = 3 // more pushes of single tables, fewer full rounds
		}
		switch {
		case x < 3:
			what = "CompactL0"
			did = lv.CompactL0()
		case x < 5:
			n := 1 + r.Intn(max(1, len(lens)-1))
			what = fmt.Sprintf("CompactLN(%d)", n)
			did = lv.CompactLN(n)
		case x < 8:
			what = "CheckAndCompact"
			lv.CheckAndCompact()
			did = true
		case x < 9 && len(later) > 0:
			what = "Flush"
			if !flush(later[0]) {
				return res
			}
			later = later[1:]
		default:
			if w := pickLow(); w > low {
				lv.SetWatermark(w)
				low = w
				what = fmt.Sprintf("SetWatermark(%d)", w)
			}
		}
		if what == "" {
			continue
		}
		steps = append(steps, fmt.Sprintf("%s[low=%d levels=%v]", what, low, lens))
		if !did {
			continue
		}
		after := lv.Tables()
		nb, na := 0, 0
		for _, t := range before {
			nb += len(t.Entries)
		}
		for _, t := range after {
			na += len(t.Entries)
		}
		if !sameTables(before, after) {
			compactions++
		}
		if got := lv.Watermark(); got != low {
			res.Verdict = "inconclusive"
			res.Inconcl = fmt.Sprintf("watermark accessor reports %d, harness set %d", got, low)
			return res
		}
		if sig, d := judgeDirStep(before, after, low); sig != "" {
			fail("dump/"+sig, d)
			break
		}
		_ = nb
		_ = na
		ps, _, _ := dumpToSet(before)
		qs, _, _ := dumpToSet(after)
		if d := ps.count() - qs.count(); d > 0 {
			dropped += d
		}
		n0 := len(res.Violations)
		checkLookups(lv, set, ls.Users, absent, "after-"+strings.SplitN(what, "(", 2)[0], low, &res, "C09", "C09/lookup")
		if len(res.Violations) > n0 {
			res.Violations[len(res.Violations)-1].Detail += fmt.Sprintf("\nwatermark %d; steps: %s\nlayout: %v", low, strings.Join(steps, " ; "), describeLayout(ls))
		}
	}
	if res.Verdict == "" {
		rv, _ := lv.Recover()
		n0 := len(res.Violations)
		checkLookups(rv, set, ls.Users, absent, "recovered", low, &res, "C09", "C09/lookup")
		if len(res.Violations) > n0 {
			res.Violations[len(res.Violations)-1].Detail += fmt.Sprintf("\nwatermark %d; steps: %s\nlayout: %v", low, strings.Join(steps, " ; "), describeLayout(ls))
		}
		if res.Verdict == "" {
			if sig, d := judgeDirStep(lv.Tables(), rv.Tables(), 0); sig != "" {
				fail("recovered-dump/"+sig, d)
			}
		}
		rv.Close()
	}
	final := lv.Tables()
	tombKept, maxLevel := 0, 0
	for _, t := range final {
		for _, e := range t.Entries {
			if e.Tombstone {
				tombKept++
			}
		}
		if t.Level > maxLevel {
			maxLevel = t.Level
		}
	}
	res.AddObs("compactions", int64(compactions))
	res.AddObs("versions_dropped", int64(dropped))
	res.AddObs("tombstones_kept", int64(tombKept))
	res.AddObs(fmt.Sprintf("maxlevel_%d", maxLevel), 1)
	if low > 0 {
		res.AddObs("cases_watermark>0", 1)
	}
	res.NonTrivial = compactions > 0 && dropped > 0 && tombKept > 0
	res.Hash = core.HashOf([]any{ls, steps})
	if c.Int("sample", 0) == 1 {
		res.Sample = map[string]any{"layout": describeLayout(ls), "steps": steps, "dropped": dropped, "tombstones_kept": tombKept}
	}
	return res
}

func sameTables(a, b []originium.VerifTable) bool {
	if len(a) != len(b) {
		return false
	}
	for i := range a {
		if a[i].Level != b[i].Level || a[i].Idx != b[i].Idx || len(a[i].Entries) != len(b[i].Entries) {
			return false
		}
	}
	return true
}

func genC09(tier string, seed int64) []core.Case {
	n := 400
	if tier == "thorough" {
		n = 6000
	}
	r := rand.New(rand.NewSource(seed*15485863 + 9))
	var cs []core.Case
	for i := 0; i < n; i++ {
		c := core.Case{ID: fmt.Sprintf("cmp%05d", i), Kind: "direct", Seed: r.Int63(), S: map[string]string{"keys": []string{"hostile", "prefix", "windowed", "long", "binary", "prefix"}[r.Intn(6)]}, N: map[string]int64{}}
		if i < 3 {
			c.N["sample"] = 1
		}
		if i%5 == 2 {
			c.N["disjoint"] = 1
		}
		cs = append(cs, c)
	}
	nrec := 30
	if tier == "thorough" {
		nrec = 600
	}
	for i := 0; i < nrec; i++ {
		cs = append(cs, core.Case{ID: fmt.Sprintf("rec%05d", i), Kind: "recovered", Seed: r.Int63()})
	}
	ndb := 12
	if tier == "thorough" {
		ndb = 150
	}
	for _, c := range genSeq(tier, seed+9, "C09", ndb, ndb) {
		c.Kind = "db"
		c.N["txns"] = min(c.N["txns"], 150)
		delete(c.N, "big")
		cs = append(cs, c)
	}
	return cs
}

func c09SelfTest() error {
	e := func(u string, ts uint64, v string, tomb bool) types.Entry {
		return vEntry{User: u, Ts: ts, Val: v, Tomb: tomb}.entry()
	}
	in := [][]types.Entry{{e("a", 5, "", true), e("a", 3, "x", false)}, {e("a", 1, "y", false), e("b", 2, "z", false)}}
	cases := []struct {
		out  []types.Entry
		low  uint64
		want string
	}{
		{[]types.Entry{e("a", 5, "", true), e("a", 3, "x", false), e("a", 1, "y", false), e("b", 2, "z", false)}, 0, ""},
		{[]types.Entry{e("a", 5, "", true), e("b", 2, "z", false)}, 5, ""},
		{[]types.Entry{e("a", 5, "", true), e("b", 2, "z", false)}, 4, "version-lost"},
		{[]types.Entry{e("a", 3, "x", false), e("a", 1, "y", false), e("b", 2, "z", false)}, 0, "tombstone-lost"},
		{[]types.Entry{e("a", 5, "", true), e("a", 3, "x", false), e("a", 1, "y", false), e("b", 2, "q", false)}, 0, "entry-changed"},
		{[]types.Entry{e("a", 5, "", true), e("a", 3, "x", false), e("a", 1, "y", false), e("b", 2, "z", false), e("c", 1, "n", false)}, 0, "entry-appeared"},
		{[]types.Entry{e("a", 3, "x", false), e("a", 5, "", true), e("a", 1, "y", false), e("b", 2, "z", false)}, 0, "output-unsorted"},
		{[]types.Entry{e("a", 5, "", true), e("a", 3, "x", false), e("b", 2, "z", false)}, 3, ""},
		{[]types.Entry{e("a", 5, "", true), e("a", 1, "y", false), e("b", 2, "z", false)}, 3, "version-lost"},
	}
	for i, c := range cases {
		cp := make([][]types.Entry, len(in))
		copy(cp, in)
		got, d := judgeCompaction(cp, c.out, c.low)
		if got != c.want {
			return fmt.Errorf("compaction oracle self-test %d: got %q (%s), want %q", i, got, d, c.want)
		}
	}
	return nil
}

func init() {
	core.Register(&core.Check{
		Prop: "C09", Level: "exploration",
		Rule: "case = 2-12 generated tables (1-40 entries, several versions and tombstones per key, duplicates across tables, hostile/windowed/long/binary keys) in a standalone level manager, block size/L0 target/ratio drawn, (every fifth layout gives most flushes a key window of their own: several disjoint tables per level, 4-10 steps biased to CompactLN; a sixth of the layouts has an L0 of 5-12 tables), then 1-5 steps of CompactL0 / CompactLN(n) / CheckAndCompact / further flush / watermark raise (0, 1, a version, version+1, max, beyond); after every compaction: directory dump before vs after (only versions shadowed at or below the watermark may vanish, nothing appears or changes, tables sorted) and every key x timestamp >= watermark looked up against the brute-force model of everything flushed; finally the same lookups on handles rebuilt by recovery; non-trivial = a compaction happened, >=1 version was legitimately dropped and >=1 tombstone survived; recovered cases: 10-12 small tables pile up in L0 (file indices with one and two digits), the handles are rebuilt by recovery, then 2-5 further flushes/compactions run ON the recovered handles, each judged like a direct step, and a second recovery is compared again; db cases: a sequential database workload (as C01) in which every real compaction - real watermark, real tables - is judged in situ by the same input/output oracle through the compaction hook, non-trivial = compactions ran with a watermark > 0 and dropped versions; distinct by hash of layout+steps / case parameters",
		Gen:  genC09, Run: runC09, BatchSize: 10, GoMaxProcs: 1, Parallel: 8,
		SelfTest:      c09SelfTest,
		MinNonTrivial: map[string]int{"quick": 20, "thorough": 500},
		Assumptions:   []string{"watermark is driven through the verif accessor on the level manager's own oracle.readMark", "tables are built only from sorted lists of unique versioned keys; equal versions have equal content"},
	})
}
