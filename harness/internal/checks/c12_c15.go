package checks

import (
	"fmt"
	"math/rand"
	"os"
	"path/filepath"
	"runtime"
	"strings"
	"sync"
	"time"

	"github.com/B1NARY-GR0UP/originium"

	"verifharness/internal/core"
	"verifharness/internal/eng"
	"verifharness/internal/gen"
)

// C12: one DB handle is safe for concurrent use, including its own background work.
// The concurrent driver of txn_conc.go runs (a) under the race detector with small workloads and
// (b) without it with larger ones; every finding of the history checkers counts ("every operation
// returns a result allowed by C05-C07"), as do panics and race reports.

func runC12(c core.Case) core.Result {
	res := runConc(c, "C12")
	for i := range res.Violations {
		v := &res.Violations[i]
		if v.Prop != "C12" {
			v.Sig = "C12/" + v.Sig
			v.Detail = "[result not allowed by " + v.Prop + "] " + v.Detail
			v.Prop = "C12"
		}
	}
	if v, ok := res.Extra["nt_C12"].(bool); ok {
		res.NonTrivial = v
	}
	res.Extra = nil
	return res
}

func genC12(tier string, seed int64) []core.Case {
	nrace, nplain := 16, 24
	if tier == "thorough" {
		nrace, nplain = 100, 300
	}
	r := rand.New(rand.NewSource(seed*179424673 + 12))
	var cs []core.Case
	for i := 0; i < nrace; i++ {
		c := core.Case{ID: fmt.Sprintf("race%04d", i), Kind: "conc-race", Seed: r.Int63(),
			S: map[string]string{"delay": gen.DelayProfiles[r.Intn(len(gen.DelayProfiles))]},
			N: map[string]int64{"clients": int64(3 + r.Intn(5)), "txns": int64(6 + r.Intn(9)), "racebuild": 1}}
		if i%2 == 0 {
			c.N["deflog"] = 1
		}
		if i%4 == 1 {
			c.N["sibling"] = 1
		}
		if i%5 == 3 {
			c.N["tsbase"] = int64(1 + (i/5)%5)
		}
		cs = append(cs, c)
	}
	for i := 0; i < nplain; i++ {
		c := core.Case{ID: fmt.Sprintf("conc%04d", i), Kind: "conc", Seed: r.Int63(),
			S: map[string]string{"delay": gen.DelayProfiles[r.Intn(len(gen.DelayProfiles))]},
			N: map[string]int64{"clients": int64(4 + r.Intn(13)), "txns": int64(30 + r.Intn(31))}}
		if i%3 == 1 {
			c.N["procs"] = int64(1 + i%2)
			c.N["clients"] = int64(8 + r.Intn(7))
			c.N["txns"] = int64(12 + r.Intn(10))
		}
		if i == 0 {
			c.N["sample"] = 1
		}
		if i%3 == 0 {
			c.N["deflog"] = 1
		}
		if i%5 == 2 {
			c.N["sibling"] = 1
		}
		if i%6 == 4 {
			c.N["tsbase"] = int64(1 + (i/6)%5)
		}
		cs = append(cs, c)
	}
	return cs
}

// ------------------------------------------------------------------------------------------------
// C15: every call returns; Close stops the flusher; reopen is immediate and complete.

func countRunGoroutines() int {
	buf := make([]byte, 4<<20)
	n := runtime.Stack(buf, true)
	return strings.Count(string(buf[:n]), "originium.(*DB).run(")
}

// runGoroutinesSettle returns the number of flush goroutines once it has dropped to want, or what is
// still there after 3 s: close(db.closed) is the last statement of run(), so right after Close
// returned the goroutine may still be on its way out for a few microseconds.
func runGoroutinesSettle(want int) int {
	deadline := time.Now().Add(3 * time.Second)
	for {
		n := countRunGoroutines()
		if n <= want || time.Now().After(deadline) {
			return n
		}
		time.Sleep(200 * time.Microsecond)
	}
}

type c15Writer struct {
	keys []string
	last map[string]string
}

func runC15(c core.Case) core.Result {
	var res core.Result
	r := rand.New(rand.NewSource(c.Seed))
	family := c.Str("family", "fast-writers")
	base := filepath.Join(core.WorkerScratch(), c.ID)
	os.RemoveAll(base)
	defer os.RemoveAll(base)
	cfg := gen.Config(r)
	cfg.ImmutableBuffer = int(c.Int("imm", 0))
	cfg.MemtableByteThreshold = int(c.Int("mem", 1))
	delay := map[string]string{"fast-writers": "slow-flusher", "begin-storm": "slow-commit", "close-pending": "slow-flusher", "close-idle": "none", "two-dbs": "jitter", "open-at-close": "jitter"}[family]
	eng.H.SetProfile(delay, c.Seed)
	defer eng.H.SetProfile("none", 0)
	before := eng.H.Snapshot()
	fail := func(sig, f string, a ...any) {
		res.Violate("C15", "C15/"+sig, "%s\nfamily %s, config %s", fmt.Sprintf(f, a...), family, gen.CfgString(cfg))
	}
	ndb := 1
	if family == "two-dbs" {
		ndb = 2
	}
	run0 := countRunGoroutines()
	calls := 0
	var cmu sync.Mutex
	var writers []*c15Writer
	for round := 0; round < 2 && res.Verdict == ""; round++ {
		var dbs []*originium.DB
		var dirs []string
		for i := 0; i < ndb; i++ {
			d := filepath.Join(base, fmt.Sprintf("db%d", i))
			dirs = append(dirs, d)
			dbs = append(dbs, eng.Open(d, cfg))
		}
		if family == "close-idle" && round == 0 {
			// Close right after Open, nothing written
			for _, db := range dbs {
				db.Close()
			}
			if n := runGoroutinesSettle(run0); n != run0 {
				fail("flusher-survives-close", "%d background flush goroutines are still alive 3 s after Close of an idle store returned", n-run0)
			}
			continue
		}
		G := int(c.Int("writers", 3))
		N := int(c.Int("txns", 40))
		if writers == nil {
			writers = make([]*c15Writer, G*ndb)
		}
		var wg sync.WaitGroup
		for di, db := range dbs {
			for g := 0; g < G; g++ {
				w := writers[di*G+g]
				if w == nil {
					// the model of a writer's keys lives across the rounds, like the directory does
					w = &c15Writer{last: map[string]string{}}
					for k := 0; k < 4; k++ {
						w.keys = append(w.keys, fmt.Sprintf("w%d.%d/k%d", di, g, k))
					}
					writers[di*G+g] = w
				}
				wg.Add(1)
				go func(db *originium.DB, w *c15Writer, g int) {
					defer wg.Done()
					gr := rand.New(rand.NewSource(c.Seed + int64(g)*31 + int64(round)))
					for i := 0; i < N; i++ {
						k := w.keys[gr.Intn(len(w.keys))]
						v := fmt.Sprintf("r%d.g%d.%d.%s", round, g, i, strings.Repeat("z", gr.Intn(40)))
						if err := db.Update(func(tx *originium.Txn) error { return tx.Set(k, []byte(v)) }); err != nil {
							cmu.Lock()
							fail("blind-write-refused", "Update of a blind write returned %v", err)
							cmu.Unlock()
							return
						}
						w.last[k] = v
						cmu.Lock()
						calls++
						cmu.Unlock()
					}
				}(db, w, g)
			}
			// readers: Begin/Get/Discard while commits are slow
			nr := int(c.Int("readers", 2))
			for g := 0; g < nr; g++ {
				wg.Add(1)
				go func(db *originium.DB, g int) {
					defer wg.Done()
					for i := 0; i < N; i++ {
						tx := db.Begin(false)
						tx.Get(fmt.Sprintf("w0.%d/k%d", g%G, i%4))
						tx.Discard()
						cmu.Lock()
						calls++
						cmu.Unlock()
					}
				}(db, g)
			}
		}
		wg.Wait()
		pending := 0
		for _, db := range dbs {
			pending += db.VerifImmutables()
		}
		if pending > 0 {
			res.AddObs("close_with_pending_flushes", 1)
		}
		// transactions still open when the database is closed (a deferred Discard that runs late):
		// more of them than any internal channel has slots; their Discard has to return as well
		var openTx []*originium.Txn
		if family == "open-at-close" {
			k := 110 + r.Intn(100)
			for i := 0; i < k; i++ {
				tx := dbs[0].Begin(i%3 == 0)
				if i%3 == 0 {
					tx.Set(fmt.Sprintf("never-committed-%d", i), []byte("x"))
				} else if i%3 == 1 {
					tx.Get("w0.0/k0")
				}
				openTx = append(openTx, tx)
			}
		}
		for _, db := range dbs {
			db.Close()
		}
		for _, tx := range openTx {
			tx.Discard()
			calls++
		}
		if len(openTx) > 0 {
			res.AddObs("transactions_discarded_after_close", int64(len(openTx)))
		}
		// after Close returned the background flusher has stopped
		if n := runGoroutinesSettle(run0); n != run0 {
			fail("flusher-survives-close", "%d background flush goroutines are still alive 3 s after Close returned", n-run0)
		}
		// ... and the directory can be reopened at once with the complete committed state
		for di, d := range dirs {
			db := eng.Open(d, cfg)
			db.View(func(tx *originium.Txn) error {
				for g := 0; g < G; g++ {
					w := writers[di*G+g]
					for _, k := range w.keys {
						got, ok := tx.Get(k)
						want, wok := w.last[k]
						if ok != wok || string(got) != want {
							fail("state-after-close", "reopened right after Close: Get(%q) = (%q, %v), last committed (%q, %v) [%d flushes were pending at Close]", k, got, ok, want, wok, pending)
							return nil
						}
					}
				}
				return nil
			})
			db.Close()
		}
	}
	obs := eng.Diff(before, eng.H.Snapshot())
	for _, k := range []string{"rotate", "flush", "queue.sender-waited", "begin.during-commit", "commit.done"} {
		res.AddObs(k, obs[k])
	}
	res.AddObs("client_calls_completed", int64(calls))
	res.AddObs("family."+family, 1)
	res.NonTrivial = obs["queue.sender-waited"] > 0 || obs["begin.during-commit"] >= 3 || family == "close-idle" || family == "open-at-close"
	res.Hash = core.HashOf([]any{c.Seed, c.S, c.N})
	if c.Int("sample", 0) == 1 {
		res.Sample = map[string]any{"family": family, "config": gen.CfgString(cfg), "writers": c.Int("writers", 3), "txns": c.Int("txns", 40),
			"observed": map[string]int64{"sender waited for the flush queue": obs["queue.sender-waited"], "Begin during a commit": obs["begin.during-commit"], "flush": obs["flush"]}}
	}
	return res
}

// stuckToViolation turns a watchdog expiry into a violation of prop when (and only when) the
// stuck-state analysis found a stable blocked state; everything else stays inconclusive.
func stuckToViolation(prop string) func(core.Case, core.StuckAnalysis, *core.Result) {
	return func(c core.Case, an core.StuckAnalysis, res *core.Result) {
		if !an.Stable {
			return
		}
		res.Verdict = ""
		res.Inconcl = ""
		seen := map[string]bool{}
		var frames []string
		for _, b := range an.Blocked {
			if !seen[b] {
				seen[b] = true
				frames = append(frames, b)
			}
		}
		res.Violate(prop, prop+"/deadlock/"+strings.Join(frames, "+"), "calls did not return and the process is in a stable blocked state: %s\ncase %s %v %v\n%s", an.Summary, c.ID, c.S, c.N, an.Dump)
	}
}

func genC15(tier string, seed int64) []core.Case {
	n := 60
	if tier == "thorough" {
		n = 600
	}
	r := rand.New(rand.NewSource(seed*373587883 + 15))
	fams := []string{"fast-writers", "fast-writers", "begin-storm", "close-pending", "close-idle", "two-dbs", "fast-writers", "open-at-close"}
	var cs []core.Case
	for i := 0; i < n; i++ {
		f := fams[i%len(fams)]
		c := core.Case{ID: fmt.Sprintf("lv%05d", i), Kind: "scenario", Seed: r.Int63(), S: map[string]string{"family": f},
			N: map[string]int64{"imm": int64(r.Intn(4)), "mem": int64([]int{1, 50, 120, 300}[r.Intn(4)]), "writers": int64(2 + r.Intn(4)), "readers": int64(r.Intn(4)), "txns": int64(8 + r.Intn(18))}}
		if f == "begin-storm" {
			c.N["readers"] = int64(4 + r.Intn(5))
		}
		if i < 3 {
			c.N["sample"] = 1
		}
		cs = append(cs, c)
	}
	return cs
}

func init() {
	core.Register(&core.Check{
		Prop: "C12", Level: "exploration",
		Rule: "concurrent histories as in C05-C07 (3-16 client goroutines x 10-60 transactions on 3-6 shared keys, flush queue 0-4, memtable 1-1000 B, delay profiles at the schedule points between critical sections), one part executed under the Go race detector (smaller workloads: s2 compression is ~50x slower there), the rest without; violations = any race report (de-duplicated by the pair of first non-runtime frames), any panic, any history finding of the C05/C06/C07/C08 checkers, any stable blocked state found by the stuck-state analysis when a case exceeds its watchdog; non-trivial = a rotation, flush or compaction happened while >=2 client calls were in flight; distinct by case parameters",
		Gen:  genC12, Run: runC12, SelfTest: histSelfTest, BatchSize: 2, GoMaxProcs: 4, Parallel: 6, CaseTimeout: 400 * time.Second,
		RaceKinds:     map[string]bool{"conc-race": true},
		OnStuck:       stuckToViolation("C12"),
		MinNonTrivial: map[string]int{"quick": 15, "thorough": 150},
		Assumptions:   []string{"the race detector reports only races on executed, instrumented accesses", "each transaction is used by one goroutine", "only interleavings the scheduler and the injected delays produced"},
	})
	core.Register(&core.Check{
		Prop: "C15", Level: "exploration",
		Rule: "case = one scenario, two rounds on the same directories: fast-writers (2-5 writers commit faster than a flusher slowed at its schedule points, flush queue 0-3, memtable 1-300 B), begin-storm (4-8 readers Begin while commits are slowed between timestamp and write), close-pending (Close with flushes queued), open-at-close (110-210 transactions still open when Close is called, discarded afterwards), close-idle (Close right after Open), two-dbs (two databases in one process); every call must return: an in-process watchdog far above normal latency takes two goroutine dumps 3 s apart and declares a deadlock only if no hook fired in between and every goroutine inside the engine is parked in the same frame with a blocking wait reason; after Close no flush goroutine may remain and an immediate Open must read every writer's last committed value (writers own disjoint keys); non-trivial = a sender actually waited for the flush queue, or >=3 Begins arrived during a commit, or the idle-close family; distinct by case parameters",
		Gen:  genC15, Run: runC15, BatchSize: 5, GoMaxProcs: 4, Parallel: 6, CaseTimeout: 90 * time.Second,
		OnStuck:       stuckToViolation("C15"),
		MinNonTrivial: map[string]int{"quick": 15, "thorough": 200},
		Assumptions: []string{"'bounded time' is decided as 'not in a stable blocked state' 90 s after the case started (normal duration < 2 s); a wedged state that still fires hooks ends inconclusive",
			"Close is called after all client calls returned (Close concurrent with commits is outside the property)"},
	})
}
