package checks

import (
	"errors"
	"fmt"
	"math/rand"
	"os"
	"path/filepath"
	"runtime"
	"sort"
	"strings"
	"sync"
	"sync/atomic"
	"time"

	"github.com/B1NARY-GR0UP/originium"
	"github.com/B1NARY-GR0UP/originium/types"

	"verifharness/internal/core"
	"verifharness/internal/eng"
	"verifharness/internal/gen"
)

// Concurrent driver: G client goroutines run transactions on a few shared keys while the engine
// rotates, flushes and compacts; every API call is recorded at the client boundary with one atomic
// logical clock; the history is judged offline (SNAP, SER, conflict interval rules, local rules).

type concRun struct {
	clock   atomic.Int64
	nextVal atomic.Int32
	nextTxn atomic.Int32
	vmu     sync.Mutex
	valID   map[string]int32
	mu      sync.Mutex
	txns    []*hTxn
	keys    []string
	db      *originium.DB
	panics  []string

	markChecks    atomic.Int64
	markViolation string
	misuseN       atomic.Int64
	misuse        string
}

func (cr *concRun) newValue(r *rand.Rand) (int32, []byte) {
	id := cr.nextVal.Add(1)
	s := fmt.Sprintf("v%d|%s", id, strings.Repeat("q", r.Intn(60)))
	cr.vmu.Lock()
	cr.valID[s] = id
	cr.vmu.Unlock()
	return id, []byte(s)
}

func (cr *concRun) idOf(b []byte, ok bool) int32 {
	if !ok {
		return 0
	}
	cr.vmu.Lock()
	id, found := cr.valID[string(b)]
	cr.vmu.Unlock()
	if !found {
		return -1
	}
	return id
}

// checkReadMark is an online invariant monitor: while a transaction is open the read watermark
// (which is also the version discard watermark and the horizon of the committed-list cleanup) must
// not be above its snapshot timestamp. Begin registers the reader under the oracle lock before any
// later mark can be queued, so DoneUntil <= readTs holds from the moment Begin returns until the
// transaction ends; the mark "standing there already" (equality) is fine.
func (cr *concRun) checkReadMark(tx *originium.Txn, rec *hTxn, when string) {
	cr.markChecks.Add(1)
	if mark, ts := cr.db.VerifReadMark(), tx.VerifReadTs(); mark > ts {
		cr.mu.Lock()
		if cr.markViolation == "" {
			cr.markViolation = fmt.Sprintf("T%d (client %d): %s the read watermark is %d although the transaction, still open, reads at timestamp %d: versions it needs may be discarded and conflict records it needs may be cleaned", rec.ID, rec.Client, when, mark, ts)
		}
		cr.mu.Unlock()
	}
}

// one transaction of a client; shape selects the anomaly pattern
func (cr *concRun) oneTxn(g int, r *rand.Rand, shape string) {
	nk := len(cr.keys)
	update := shape != "audit" && shape != "longaudit" && shape != "fullaudit"
	rec := &hTxn{ID: int(cr.nextTxn.Add(1)), Client: g, Update: update}
	call := func(f func()) (int64, int64) {
		eng.H.InFlight.Add(1)
		c := cr.clock.Add(1)
		f()
		r := cr.clock.Add(1)
		eng.H.InFlight.Add(-1)
		return c, r
	}
	if shape == "closure" {
		cr.closureTxn(g, r, rec)
		return
	}
	var tx *originium.Txn
	rec.BeginCall, rec.BeginRet = call(func() { tx = cr.db.Begin(update) })
	cr.checkReadMark(tx, rec, "after Begin returned")
	buf := map[int]int32{}
	get := func(k int) int32 {
		var got []byte
		var ok bool
		at, _ := call(func() { got, ok = tx.Get(cr.keys[k]) })
		cr.checkReadMark(tx, rec, "after a Get")
		id := cr.idOf(got, ok)
		_, own := buf[k]
		rec.Reads = append(rec.Reads, hRead{K: k, V: id, Own: own && update, At: at})
		return id
	}
	set := func(k int, del bool) {
		if del {
			call(func() { tx.Delete(cr.keys[k]) })
			buf[k] = 0
			rec.Writes = append(rec.Writes, hWrite{K: k, V: 0})
			return
		}
		id, v := cr.newValue(r)
		call(func() { tx.Set(cr.keys[k], v) })
		buf[k] = id
		rec.Writes = append(rec.Writes, hWrite{K: k, V: id})
	}
	pause := func() {
		switch r.Intn(6) {
		case 0:
			time.Sleep(time.Duration(r.Intn(300)) * time.Microsecond)
		case 1, 2:
			for i := 0; i < 1+r.Intn(3); i++ {
				// yield
				time.Sleep(0)
			}
		}
	}
	end := "commit"
	switch shape {
	case "rmw": // read-modify-write on one counter key
		k := 0
		get(k)
		pause()
		set(k, false)
	case "skew": // read two keys, write one of them
		a, b := 0, 1%nk
		get(a)
		get(b)
		pause()
		if r.Intn(2) == 0 {
			set(a, false)
		} else {
			set(b, false)
		}
	case "fullaudit": // read-only, every key
		for k := 0; k < nk; k++ {
			get(k)
		}
		end = "discard"
	case "audit": // read-only, several keys
		for _, k := range r.Perm(nk)[:1+r.Intn(nk)] {
			get(k)
			if r.Intn(3) == 0 {
				pause()
			}
		}
		end = "discard"
	case "longaudit": // long-lived reader: the same keys read again after many other commits
		ks := r.Perm(nk)[:1+r.Intn(nk)]
		for _, k := range ks {
			get(k)
		}
		for round := 0; round < 2+r.Intn(3); round++ {
			time.Sleep(time.Duration(1+r.Intn(8)) * time.Millisecond)
			for _, k := range ks {
				get(k)
			}
		}
		end = "discard"
	case "blind":
		for i := 0; i < 1+r.Intn(3); i++ {
			set(r.Intn(nk), r.Intn(6) == 0)
		}
	case "multi": // multi-key write after reading: atomic visibility
		get(r.Intn(nk))
		for _, k := range r.Perm(nk)[:min(nk, 2+r.Intn(2))] {
			set(k, false)
		}
	default: // random
		for i := 0; i < 1+r.Intn(5); i++ {
			k := r.Intn(nk)
			if r.Intn(2) == 0 {
				get(k)
			} else {
				set(k, r.Intn(6) == 0)
			}
			if r.Intn(4) == 0 {
				pause()
			}
		}
		if r.Intn(7) == 0 {
			end = "discard"
		}
	}
	if end == "discard" {
		rec.EndCall, rec.EndRet = call(func() { tx.Discard() })
		rec.Outcome = "discarded"
	} else {
		var err error
		rec.EndCall, rec.EndRet = call(func() { err = tx.Commit() })
		switch {
		case err == nil:
			rec.Outcome = "committed"
		case errors.Is(err, originium.ErrConflictTxn):
			rec.Outcome = "conflict"
		default:
			rec.Outcome = "error:" + err.Error()
		}
	}
	cr.mu.Lock()
	cr.txns = append(cr.txns, rec)
	cr.mu.Unlock()
	if r.Intn(8) == 0 {
		cr.misuseCalls(tx, update, r)
	}
}

// misuseCalls: calls on a finished transaction and with an empty key, while the other clients go on
// (C08: answered with the documented error, no effect - the recorded history shows any effect).
func (cr *concRun) misuseCalls(tx *originium.Txn, update bool, r *rand.Rand) {
	bad := func(f string, a ...any) {
		cr.mu.Lock()
		if cr.misuse == "" {
			cr.misuse = fmt.Sprintf(f, a...)
		}
		cr.mu.Unlock()
	}
	k := cr.keys[r.Intn(len(cr.keys))]
	for _, x := range r.Perm(4)[:1+r.Intn(4)] {
		cr.misuseN.Add(1)
		switch x {
		case 0:
			if v, ok := tx.Get(k); ok {
				bad("Get(%q) on a finished transaction returned %q, want not-found", k, v)
			}
		case 1:
			err := tx.Set(k, []byte("written-through-a-finished-transaction"))
			if !errors.Is(err, originium.ErrDiscardedTxn) && !(!update && errors.Is(err, originium.ErrReadOnlyTxn)) {
				bad("Set on a finished transaction (update=%v) returned %v", update, err)
			}
		case 2:
			if err := tx.Commit(); !errors.Is(err, originium.ErrDiscardedTxn) {
				bad("Commit on a finished transaction returned %v, want ErrDiscardedTxn", err)
			}
		case 3:
			t2 := cr.db.Begin(false)
			if v, ok := t2.Get(""); ok {
				bad("Get(\"\") returned %q, want not-found", v)
			}
			t2.Discard()
		}
	}
}

// closureTxn runs a whole transaction through DB.View / DB.Update (Begin and Commit happen inside).
func (cr *concRun) closureTxn(g int, r *rand.Rand, rec *hTxn) {
	nk := len(cr.keys)
	rec.Update = r.Intn(3) > 0
	failOnPurpose := rec.Update && r.Intn(6) == 0
	errFail := errors.New("closure failed on purpose")
	buf := map[int]int32{}
	fn := func(tx *originium.Txn) error {
		rec.BeginRet = cr.clock.Add(1)
		cr.checkReadMark(tx, rec, "at the start of a View/Update closure")
		for i := 0; i < 1+r.Intn(4); i++ {
			k := r.Intn(nk)
			if rec.Update && r.Intn(2) == 0 {
				id, v := cr.newValue(r)
				tx.Set(cr.keys[k], v)
				buf[k] = id
				rec.Writes = append(rec.Writes, hWrite{K: k, V: id})
			} else {
				at := cr.clock.Add(1)
				got, ok := tx.Get(cr.keys[k])
				_, own := buf[k]
				rec.Reads = append(rec.Reads, hRead{K: k, V: cr.idOf(got, ok), Own: own && rec.Update, At: at})
			}
		}
		rec.EndCall = cr.clock.Add(1)
		if failOnPurpose {
			return errFail
		}
		return nil
	}
	eng.H.InFlight.Add(1)
	rec.BeginCall = cr.clock.Add(1)
	var err error
	if rec.Update {
		err = cr.db.Update(fn)
	} else {
		err = cr.db.View(fn)
	}
	rec.EndRet = cr.clock.Add(1)
	eng.H.InFlight.Add(-1)
	switch {
	case failOnPurpose && errors.Is(err, errFail):
		rec.Outcome = "closure-error"
	case err == nil:
		rec.Outcome = "committed"
	case errors.Is(err, originium.ErrConflictTxn):
		rec.Outcome = "conflict"
	default:
		rec.Outcome = "error:" + err.Error()
	}
	cr.mu.Lock()
	cr.txns = append(cr.txns, rec)
	cr.mu.Unlock()
}

var concShapes = []string{"closure", "longaudit", "rmw", "skew", "audit", "blind", "multi", "random", "random", "audit"}

type concOutcome struct {
	txns        []*hTxn
	nk          int
	cfg         originium.Config
	keys        []string
	obs         map[string]int64
	insitu      []string
	panicked    string
	overlapping int
	crowd       bool // >40 concurrent clients: judged by the definite rules only
	sibling     bool // a second database was busy in the same process
	tsBase      uint64

	markViolation string
	markChecks    int64
	misuse        string
	misuseCalls   int64
}

// runConcWorkload executes the workload and returns the recorded history.
func runConcWorkload(c core.Case, res *core.Result) *concOutcome {
	r := rand.New(rand.NewSource(c.Seed))
	dir := filepath.Join(core.WorkerScratch(), c.ID)
	os.RemoveAll(dir)
	defer os.RemoveAll(dir)
	cfg := gen.Config(r)
	cfg.MemtableByteThreshold = []int{1, 64, 200, 300, 1000}[r.Intn(5)]
	if c.Int("racebuild", 0) == 1 && cfg.MemtableByteThreshold == 1 {
		// under the race detector a flush + compaction per commit is too slow to be useful
		cfg.MemtableByteThreshold = 150
	}
	cfg.ImmutableBuffer = []int{0, 0, 1, 2, 4}[r.Intn(5)]
	nk := 3 + r.Intn(maxHistKeys-2)
	keys := gen.Keys(r, keyProfileFor(c, r), nk)
	// no guard against equal conflict fingerprints of distinct keys (see runScripted)
	out := &concOutcome{nk: nk, cfg: cfg, keys: keys, crowd: c.Int("clients", 0) > 40}
	G := int(c.Int("clients", 6))
	N := int(c.Int("txns", 40))
	if procs := int(c.Int("procs", 0)); procs > 0 {
		// few processors, many goroutines: a goroutine woken from a wait runs long after its wake-up,
		// which stretches every window between two steps that are not under one lock
		defer runtime.GOMAXPROCS(runtime.GOMAXPROCS(procs))
	}
	eng.H.SetProfile(c.Str("delay", "jitter"), c.Seed)
	defer eng.H.SetProfile("none", 0)
	var imu sync.Mutex
	eng.H.OnCompaction = func(level int, inputs [][]types.Entry, output []types.Entry, low uint64) {
		if sig, detail := judgeCompaction(inputs, output, low); sig != "" {
			imu.Lock()
			out.insitu = append(out.insitu, fmt.Sprintf("%s|L%d compaction (watermark %d): %s", sig, level, low, detail))
			imu.Unlock()
		}
	}
	defer func() { eng.H.OnCompaction = nil }()
	before := eng.H.Snapshot()
	cr := &concRun{valID: map[string]int32{}, keys: keys}
	if c.Int("deflog", 0) == 1 {
		// the engine's own default logger instead of the harness's silent one
		defer eng.DefaultLogger()()
	}
	if tb := int(c.Int("tsbase", 0)); tb > 0 {
		eng.PlantTimestamp(dir, cfg, eng.TsBases[(tb-1)%len(eng.TsBases)])
		out.tsBase = eng.TsBases[(tb-1)%len(eng.TsBases)]
	}
	if p := eng.Safely(func() { cr.db = eng.Open(dir, cfg) }); p != "" {
		out.panicked = "Open: " + p
		return out
	}
	var wg sync.WaitGroup
	var pmu sync.Mutex
	if c.Int("sibling", 0) == 1 {
		// a second, unrelated database in the same process, busy while the recorded clients run:
		// whatever the handles share behind the scenes is exercised (judged by the race detector
		// and by the recorded history of the first database staying legal)
		sdir := dir + "-sibling"
		os.RemoveAll(sdir)
		defer os.RemoveAll(sdir)
		var sdb *originium.DB
		if p := eng.Safely(func() { sdb = eng.Open(sdir, cfg) }); p != "" {
			out.panicked = "Open of the sibling database: " + p
			return out
		}
		stop := make(chan struct{})
		var swg sync.WaitGroup
		for g := 0; g < 2; g++ {
			swg.Add(1)
			go func(g int) {
				defer swg.Done()
				if p := eng.Safely(func() {
					for i := 0; ; i++ {
						select {
						case <-stop:
							return
						default:
						}
						_ = sdb.Update(func(tx *originium.Txn) error {
							_, _ = tx.Get(fmt.Sprintf("s%d", (i+1)%7))
							return tx.Set(fmt.Sprintf("s%d", i%7), []byte(fmt.Sprintf("sib-%d-%d", g, i)))
						})
					}
				}); p != "" {
					pmu.Lock()
					out.panicked = "sibling database: " + p
					pmu.Unlock()
				}
			}(g)
		}
		defer func() {
			close(stop)
			swg.Wait()
			if p := eng.Safely(func() { sdb.Close() }); p != "" && out.panicked == "" {
				out.panicked = "Close of the sibling database: " + p
			}
		}()
		out.sibling = true
	}
	for g := 0; g < G; g++ {
		wg.Add(1)
		go func(g int) {
			defer wg.Done()
			gr := rand.New(rand.NewSource(c.Seed*1000 + int64(g)))
			if p := eng.Safely(func() {
				for i := 0; i < N; i++ {
					cr.oneTxn(g, gr, concShapes[gr.Intn(len(concShapes))])
				}
			}); p != "" {
				pmu.Lock()
				out.panicked = p
				pmu.Unlock()
			}
		}(g)
	}
	wg.Wait()
	if out.panicked == "" {
		// second phase: a final reader after everything finished sees the last committed state,
		// and so does a reader after Close and Open (same history, same logical clock)
		if p := eng.Safely(func() {
			cr.oneTxn(G, r, "fullaudit")
			cr.db.Close()
			cr.db = eng.Open(dir, cfg)
			cr.oneTxn(G+1, r, "fullaudit")
			cr.db.Close()
		}); p != "" {
			out.panicked = "second phase (audit, Close, Open, audit, Close): " + p
		}
	}
	out.markViolation = cr.markViolation
	out.misuse, out.misuseCalls = cr.misuse, cr.misuseN.Load()
	out.markChecks = cr.markChecks.Load()
	out.txns = cr.txns
	sort.Slice(out.txns, func(i, j int) bool { return out.txns[i].BeginCall < out.txns[j].BeginCall })
	out.obs = eng.Diff(before, eng.H.Snapshot())
	// overlapping pairs: a reader whose lifetime overlapped a commit to a key it read
	for _, t := range out.txns {
		rk := map[int]bool{}
		for _, rd := range t.storeReads() {
			rk[rd.K] = true
		}
		for _, w := range out.txns {
			if w.ID == t.ID || !w.committedWriter() {
				continue
			}
			if w.EndRet > t.BeginCall && w.EndCall < t.EndRet {
				for _, ww := range w.Writes {
					if rk[ww.K] {
						out.overlapping++
						break
					}
				}
			}
		}
	}
	return out
}

// judgeConc applies every offline checker to a recorded history and files findings by property.
func judgeConc(out *concOutcome, res *core.Result, owner string) {
	if out.panicked != "" {
		res.Violate(owner, owner+"/conc/panic", "engine panicked during the concurrent workload: %s", out.panicked)
		return
	}
	if out.markViolation != "" {
		res.Violate("C05", "C05/conc/read-watermark-above-open-snapshot", "%s\nconfig: %s keys %q", out.markViolation, gen.CfgString(out.cfg), out.keys)
	}
	res.AddObs("read_watermark_invariant_checks", out.markChecks)
	if out.misuse != "" {
		res.Violate("C08", "C08/conc/misuse", "%s\nconfig: %s keys %q", out.misuse, gen.CfgString(out.cfg), out.keys)
	}
	res.AddObs("misuse_calls_during_concurrent_work", out.misuseCalls)
	idx := map[int]*hTxn{}
	for _, t := range out.txns {
		idx[t.ID] = t
		if strings.HasPrefix(t.Outcome, "error:") {
			res.Violate("C07", "C07/conc/commit-error", "%s", t)
		}
	}
	ctx := fmt.Sprintf("\nconfig: %s keys %q (%d transactions)", gen.CfgString(out.cfg), out.keys, len(out.txns))
	if out.crowd {
		lightCheckThreshold = 0
	} else {
		lightCheckThreshold = 1 << 30
	}
	sv := checkOps(snapOps(out.txns), out.nk, 30*time.Second, idx)
	switch sv.Result {
	case "illegal":
		res.Violate("C05", "C05/conc/snap-illegal", "the reads of the transactions are not explained by snapshots taken at their Begin: %s%s", sv.Witness, ctx)
	case "unknown":
		res.AddObs("snap_checker_timeouts", 1)
	}
	ev := checkOps(serOps(out.txns), out.nk, 30*time.Second, idx)
	switch ev.Result {
	case "illegal":
		res.Violate("C06", "C06/conc/not-serializable", "no serial order respecting real time explains the committed transactions: %s%s", ev.Witness, ctx)
	case "unknown":
		res.AddObs("ser_checker_timeouts", 1)
	}
	if sv.Result == "skipped" || ev.Result == "skipped" {
		res.AddObs("crowd_histories_judged_by_definite_rules_only", 1)
	}
	res.AddObs("snap_ops", int64(sv.Ops))
	res.AddObs("ser_ops", int64(ev.Ops))
	for _, f := range localRules(out.txns) {
		res.Violate(f.Prop, f.Prop+"/conc/"+f.Sig, "%s%s", f.Detail, ctx)
	}
	for _, f := range lostUpdates(out.txns) {
		res.Violate(f.Prop, f.Prop+"/conc/"+f.Sig, "%s%s", f.Detail, ctx)
	}
	fs, judged, unjudged := conflictRules(out.txns)
	for _, f := range fs {
		res.Violate(f.Prop, f.Prop+"/conc/"+f.Sig, "%s%s", f.Detail, ctx)
	}
	res.AddObs("commit_outcomes_judged", int64(judged))
	res.AddObs("commit_outcomes_not_judged", int64(unjudged))
	for _, m := range out.insitu {
		parts := strings.SplitN(m, "|", 2)
		res.Violate("C09", "C09/insitu/"+parts[0], "%s", parts[1])
	}
	if sv.Result == "unknown" || ev.Result == "unknown" {
		if res.Verdict == "" {
			res.Verdict = "inconclusive"
			res.Inconcl = "history checker timed out"
		}
	}
}

func runConc(c core.Case, owner string) core.Result {
	var res core.Result
	out := runConcWorkload(c, &res)
	if res.Verdict == "inconclusive" {
		return res
	}
	judgeConc(out, &res, owner)
	var committedW, conflicts, aborted, ro int64
	for _, t := range out.txns {
		switch {
		case t.committedWriter():
			committedW++
		case t.Outcome == "conflict":
			conflicts++
		case t.Update && (t.Outcome == "discarded") && len(t.Writes) > 0:
			aborted++
		case !t.Update:
			ro++
		}
	}
	for k, v := range out.obs {
		if !strings.HasPrefix(k, "pt.") {
			res.AddObs(k, v)
		}
	}
	if out.sibling {
		res.AddObs("histories_with_a_second_database_in_the_process", 1)
	}
	if out.tsBase > 0 {
		res.AddObs("histories_on_a_store_with_a_high_timestamp", 1)
	}
	if c.Int("deflog", 0) == 1 {
		res.AddObs("histories_with_the_default_logger", 1)
	}
	res.AddObs("transactions", int64(len(out.txns)))
	res.AddObs("committed_writers", committedW)
	res.AddObs("conflicts_refused", conflicts)
	res.AddObs("discarded_writers", aborted)
	res.AddObs("readonly", ro)
	res.AddObs("reader_commit_overlaps", int64(out.overlapping))
	res.Extra = map[string]any{
		"nt_C05": out.overlapping > 0 && out.obs["flush"] > 0,
		"nt_C06": conflicts >= 1 && committedW >= 10,
		"nt_C07": conflicts >= 1 && committedW >= 5,
		"nt_C08": conflicts+aborted >= 1 && out.obs["flush"] > 0,
		"nt_C12": out.obs["overlap.rotate"]+out.obs["overlap.flush"]+out.obs["overlap.compact"] > 0 && out.obs["rotate"] > 0,
	}
	res.Hash = core.HashOf([]any{c.Seed, c.S, c.N})
	if c.Int("sample", 0) == 1 {
		var first []string
		for i, t := range out.txns {
			if i >= 6 {
				break
			}
			first = append(first, t.String())
		}
		res.Sample = map[string]any{"kind": "concurrent", "config": gen.CfgString(out.cfg), "keys": out.keys, "clients": c.Int("clients", 6), "delay": c.Str("delay", "jitter"),
			"transactions": len(out.txns), "committed_writers": committedW, "conflicts": conflicts, "first_transactions": first}
	}
	return res
}

// ------------------------------------------------------------------------------------------------
// registration of the transactional checks

func runTxn(c core.Case, prop string) core.Result {
	var res core.Result
	switch c.Kind {
	case "scripted":
		res = runScripted(c)
	case "conc", "conc-race":
		res = runConc(c, prop)
	}
	if v, ok := res.Extra["nt_"+prop].(bool); ok {
		res.NonTrivial = v
	}
	res.Extra = nil
	return res
}

func genTxn(prop string, tier string, seed int64, scriptedQ, scriptedT, concQ, concT int, oldReaderShare int) []core.Case {
	ns, nc := scriptedQ, concQ
	if tier == "thorough" {
		ns, nc = scriptedT, concT
	}
	r := rand.New(rand.NewSource(seed*67867967 + int64(prop[1]-'0')*10 + int64(prop[2]-'0')))
	var cs []core.Case
	for i := 0; i < ns; i++ {
		c := core.Case{ID: fmt.Sprintf("scr%05d", i), Kind: "scripted", Seed: r.Int63(),
			S: map[string]string{"family": "random", "prop": prop, "delay": []string{"none", "none", "jitter", "slow-flusher"}[r.Intn(4)]},
			N: map[string]int64{"steps": int64(100 + r.Intn(200))}}
		if oldReaderShare > 0 && i%oldReaderShare == 0 {
			c.S["family"] = "oldreader"
			if i%(2*oldReaderShare) == 0 {
				c.S["family"] = "oldreader-early"
			}
			c.N["steps"] = int64(30 + r.Intn(600))
		}
		if c.S["family"] == "random" && i%5 == 4 {
			c.S["family"] = "reopen-reader"
			c.N["steps"] = int64(40 + r.Intn(200))
		}
		if i < 2 {
			c.N["sample"] = 1
		}
		if i%7 == 3 {
			c.N["tsbase"] = int64(1 + (i/7)%5)
		}
		cs = append(cs, c)
	}
	for i := 0; i < nc; i++ {
		c := core.Case{ID: fmt.Sprintf("con%05d", i), Kind: "conc", Seed: r.Int63(),
			S: map[string]string{"prop": prop, "delay": gen.DelayProfiles[r.Intn(len(gen.DelayProfiles))]},
			N: map[string]int64{"clients": int64(4 + r.Intn(9)), "txns": int64(30 + r.Intn(31))}}
		if i%3 == 1 {
			c.N["procs"] = int64(1 + i%2)
			c.N["clients"] = int64(8 + r.Intn(7))
			c.N["txns"] = int64(12 + r.Intn(10))
		}
		if i%10 == 5 {
			// a crowd: more client goroutines than the watermark channels have slots, on 1-2
			// processors - senders park inside Begin/Done with their marks not yet queued
			c.N["procs"] = int64(1 + i%2)
			c.N["clients"] = int64(120 + r.Intn(60))
			c.N["txns"] = int64(4 + r.Intn(3))
		}
		if i < 1 {
			c.N["sample"] = 1
		}
		if i%6 == 1 {
			c.N["tsbase"] = int64(1 + (i/6)%5)
		}
		cs = append(cs, c)
	}
	return cs
}

const txnRuleScripted = "scripted cases: one goroutine owns up to 6 open transactions on 3-6 hostile keys and executes 100-300 seeded steps (Begin ro/rw, Get, Set, Delete, Commit, Discard, View/Update closures incl. failing ones, misuse calls, drain, reopen) against a database with tiny thresholds; an MVCC store + the SSI conflict rule predict every Get and every Commit result exactly; 'oldreader' scripts keep one read-write transaction open over 30-600 steps of other commits before it writes and commits; "
const txnRuleConc = "concurrent cases: 4-12 client goroutines x 30-60 transactions (read-modify-write, write-skew pairs, read-only audits, blind and multi-key writes, random) on 3-6 shared keys, flush queue 0-4, memtable 1-1000 B, delay profiles at the schedule points, every third history with 8-14 clients on 1-2 processors (a woken goroutine runs long after its wake-up), every tenth a crowd of 120-180 clients on 1-2 processors (more senders than the watermark channels have slots; judged by the definite rules only: lost updates, conflict interval rules, local rules); every call recorded with one atomic logical clock; checked offline with porcupine (snapshot-read model at Begin intervals, strict-serializability model over whole lifetimes; single-key and key-pair projections first, then the full history), conflict interval rules and local rules (no reads of uncommitted/overwritten/alien values); "

func init() {
	reg := func(prop, ntRule string, sq, st, cq, ct, old int, minQ, minT int, assumptions []string) {
		core.Register(&core.Check{
			Prop: prop, Level: "exploration",
			Rule:      txnRuleScripted + txnRuleConc + "non-trivial = " + ntRule + "; distinct by case parameters",
			Gen:       func(tier string, seed int64) []core.Case { return genTxn(prop, tier, seed, sq, st, cq, ct, old) },
			Run:       func(c core.Case) core.Result { return runTxn(c, prop) },
			SelfTest:  histSelfTest,
			BatchSize: 6, GoMaxProcs: 4, Parallel: 6,
			MinNonTrivial: map[string]int{"quick": minQ, "thorough": minT},
			Assumptions:   append([]string{"unique value per Set call, so a read identifies the write it observed; deletes all read as 'not found'", "64-bit key fingerprints of the key universe are checked to be collision-free", "goroutine schedules are those the Go scheduler and the injected delays produced"}, assumptions...),
		})
	}
	reg("C05", "scripted: >=1 commit, >=1 flush and >10 predicted Gets; concurrent: >=1 reader whose lifetime overlapped a commit to a key it read, and >=1 flush", 200, 2500, 50, 600, 0, 60, 800,
		[]string{"a checker timeout is inconclusive, never a verdict"})
	reg("C06", "scripted: >=3 commits; concurrent: >=1 refused commit and >=10 committed writers", 60, 600, 70, 800, 0, 40, 400, nil)
	reg("C07", "scripted: >=1 predicted conflict and >=1 predicted non-conflicting overlap; concurrent: >=1 refused and >=5 committed writers", 300, 3000, 40, 400, 3, 60, 600,
		[]string{"exactness (iff) is claimed for the scripted driver; under concurrency only definite spurious aborts and definite missed conflicts are judged"})
	reg("C08", "scripted: >=1 abandoned write set and >=1 flush; concurrent: >=1 refused or discarded writer and >=1 flush", 200, 2000, 40, 400, 0, 60, 600, nil)
}
