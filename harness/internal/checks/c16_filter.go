package checks

import (
	"fmt"
	"math/rand"
	"os"
	"path/filepath"
	"strings"

	"github.com/B1NARY-GR0UP/originium"
	"github.com/B1NARY-GR0UP/originium/pkg/filter"
	"github.com/B1NARY-GR0UP/originium/types"

	"verifharness/internal/core"
	"verifharness/internal/gen"
)

// C16: the bloom filter never denies a key it was built from.

var c16Sizes = []int{1, 2, 3, 7, 10, 100, 1000, 10000, 30000}

func runC16(c core.Case) core.Result {
	var res core.Result
	r := rand.New(rand.NewSource(c.Seed))
	switch c.Kind {
	case "set":
		n := int(c.Int("n", 10))
		profile := c.Str("keys", "binary")
		var users []string
		switch profile {
		case "oneKey": // many versions of one key
			users = []string{gen.Hostile[r.Intn(len(gen.Hostile))]}
		case "prefix":
			p := strings.Repeat("q", 1+r.Intn(200))
			for i := 0; i < max(1, n/(1+r.Intn(4))); i++ {
				users = append(users, fmt.Sprintf("%s%d", p, i))
			}
		case "binary":
			for i := 0; i < max(1, n/(1+r.Intn(3))); i++ {
				b := make([]byte, 1+r.Intn(12))
				r.Read(b)
				users = append(users, string(b))
			}
		default:
			users = gen.Keys(r, "hostile", min(n, len(gen.Hostile)))
		}
		seen := map[string]bool{}
		var es []types.Entry
		multi := false
		for len(es) < n {
			u := users[r.Intn(len(users))]
			ts := uint64(r.Intn(4 * n))
			k := types.KeyWithTs(u, ts)
			if seen[k] {
				if len(seen) >= len(users)*4*n {
					break
				}
				continue
			}
			seen[k] = true
			es = append(es, types.Entry{Key: k, Value: []byte("v"), Version: int64(ts)})
		}
		perUser := map[string]int{}
		f := filter.Build(es)
		misses := 0
		for i, e := range es {
			u := e.Key[:lastAt(e.Key)]
			perUser[u]++
			if perUser[u] >= 2 {
				multi = true
			}
			// lookups of non-members (whatever they answer) are interleaved with the member lookups:
			// a filter is asked for many keys it never saw
			if i%3 == 0 {
				f.Contains(fmt.Sprintf("absent-%d-%d", i, r.Intn(1000)))
				f.Contains(u + "@")
				f.Contains(u[:len(u)-1])
			}
			if !f.Contains(u) {
				misses++
				if misses == 1 {
					res.Violate("C16", "C16/direct/false-negative", "filter built from %d entries (%d user keys, profile %s) denies member %q", len(es), len(users), profile, u)
				}
			}
		}
		res.AddObs("members_checked", int64(len(es)))
		bucket := "sets_n<10"
		switch {
		case n >= 10000:
			bucket = "sets_n>=10000"
		case n >= 1000:
			bucket = "sets_n<10000"
		case n >= 100:
			bucket = "sets_n<1000"
		case n >= 10:
			bucket = "sets_n<100"
		}
		res.AddObs(bucket, 1)
		res.NonTrivial = multi && len(es) >= 100
		res.Hash = core.HashOf([]any{c.Seed, n, profile})
		if c.Int("sample", 0) == 1 {
			res.Sample = map[string]any{"kind": "set", "n": len(es), "profile": profile, "user_keys": len(users), "first": es[0].Key}
		}
	case "movedown":
		// a table moves down one level and meets exactly as many new entries there as stale versions
		// are discarded on the way: the output has the size of the moving table but other content
		base := core.WorkerScratch()
		dir := filepath.Join(base, c.ID)
		mustMkdir(dir)
		defer os.RemoveAll(dir)
		lv := originium.VerifNewLevels(dir, 1, 1+r.Intn(2), gen.BlockThresholds[r.Intn(len(gen.BlockThresholds))])
		defer lv.Close()
		n := 1 + r.Intn(4) // stale versions in the upper table = distinct keys in the lower table
		var upper, lower []vEntry
		for i := 0; i < n; i++ {
			u := fmt.Sprintf("m%02d", 2*i)
			upper = append(upper, vEntry{User: u, Ts: 20, Val: "new"}, vEntry{User: u, Ts: 10, Val: "old"})
			lower = append(lower, vEntry{User: fmt.Sprintf("m%02d", 2*i+1), Ts: 5, Val: "low"})
		}
		upper = append(upper, vEntry{User: "m99", Ts: 20, Val: "end"})
		sortEntries(upper)
		sortEntries(lower)
		ok := lv.Flush(toEntries(lower)) == nil && lv.CompactL0() && lv.CompactLN(1) // lower table -> L2
		ok = ok && lv.Flush(toEntries(upper)) == nil && lv.CompactL0()               // upper table -> L1
		if !ok {
			res.Verdict = "inconclusive"
			res.Inconcl = "could not build the two-level layout"
			return res
		}
		lv.SetWatermark(20 + uint64(r.Intn(3)))
		lens := lv.LevelLens()
		lv.CompactLN(1)
		m, examined := lv.FilterMisses()
		if len(m) > 0 {
			res.Violate("C16", "C16/table/after-movedown-compaction", "after a table of %d entries moved from L1 to L2 (levels before: %v), merging %d entries of the table below and discarding %d stale versions, the output table's filter denies %d of its %d entries, e.g. %q", len(upper), lens, len(lower), n, len(m), examined, m[0])
		}
		rv, _ := lv.Recover()
		if m2, _ := rv.FilterMisses(); len(m2) > 0 && len(m) == 0 {
			res.Violate("C16", "C16/table/after-recovery", "recovered handles deny %d entries, e.g. %q", len(m2), m2[0])
		}
		rv.Close()
		res.AddObs("movedown_compactions", 1)
		res.AddObs("table_entries_checked", int64(examined))
		res.NonTrivial = examined >= 2
		res.Hash = fmt.Sprintf("movedown-%d-%d", c.Seed, n)
	case "dir":
		base := core.WorkerScratch()
		ls := genLayout(r, c.Str("keys", "hostile"), 8, 60)
		dir := filepath.Join(base, c.ID)
		mustMkdir(dir)
		defer os.RemoveAll(dir)
		lv := originium.VerifNewLevels(dir, ls.L0, ls.Ratio, ls.BlockSize)
		defer lv.Close()
		examined, stages := 0, 0
		check := func(v *originium.VerifLevels, stage string) {
			// the read path asks every table's filter for keys it does not hold
			for i := 0; i < 6; i++ {
				v.Lookup(fmt.Sprintf("absent%d", r.Intn(100)), uint64(r.Intn(50)))
			}
			m, n := v.FilterMisses()
			examined += n
			stages++
			if len(m) > 0 {
				res.Violate("C16", "C16/table/"+stage, "%s: the filter of a table denies %d of its own entries, e.g. %q\nlayout: %v", stage, len(m), m[0], describeLayout(ls))
			}
		}
		if r.Intn(2) == 0 {
			lv.SetWatermark(uint64(1 + r.Intn(20)))
		}
		// tables in which some user keys appear only as deletion markers: a tombstone is an entry
		// like any other and its key must be in the filter (also after recovery rebuilt it)
		if r.Intn(3) > 0 {
			var top uint64
			for _, f := range ls.Flushes {
				for _, e := range f {
					top = max(top, e.Ts)
				}
			}
			var tf []vEntry
			for i, u := range ls.Users {
				if i%2 == 0 || r.Intn(3) == 0 {
					tf = append(tf, vEntry{User: u, Ts: top + 1 + uint64(i), Tomb: true})
				}
			}
			// keys that were only ever deleted
			for i := 0; i < 1+r.Intn(3); i++ {
				tf = append(tf, vEntry{User: fmt.Sprintf("ghost%d", i), Ts: top + 20 + uint64(i), Tomb: true})
			}
			if len(ls.Users) > 1 && r.Intn(2) == 0 {
				tf = append(tf, vEntry{User: ls.Users[1], Ts: top + 50, Val: "live"})
			}
			sortEntries(tf)
			ls.Flushes = append(ls.Flushes, tf)
		}
		for _, f := range ls.Flushes {
			if err := lv.Flush(toEntries(f)); err != nil {
				res.Violate("C16", "C16/flush-error", "%v", err)
				return res
			}
			check(lv, "after-flush")
			switch r.Intn(5) {
			case 0, 1:
				lv.CheckAndCompact()
				check(lv, "after-compaction")
			case 2:
				// a table moves down one level, merged with whatever overlaps it there
				if lv.CompactLN(1 + r.Intn(2)) {
					check(lv, "after-compaction")
				}
			case 3:
				// versions get discarded from now on: outputs shrink while other inputs add entries
				lv.SetWatermark(lv.Watermark() + uint64(1+r.Intn(6)))
			}
		}
		rv0, _ := lv.Recover()
		check(rv0, "after-recovery")
		rv0.Close()
		lv.CompactL0()
		check(lv, "after-compaction")
		rv, _ := lv.Recover()
		check(rv, "after-recovery")
		rv.Close()
		res.AddObs("table_entries_checked", int64(examined))
		res.AddObs("stages", int64(stages))
		res.NonTrivial = examined >= 100
		res.Hash = core.HashOf(ls)
		if c.Int("sample", 0) == 1 {
			res.Sample = map[string]any{"kind": "dir", "layout": describeLayout(ls), "entries_checked": examined}
		}
	}
	return res
}

func genC16(tier string, seed int64) []core.Case {
	nset, ndir := 300, 120
	if tier == "thorough" {
		nset, ndir = 10000, 3000
	}
	r := rand.New(rand.NewSource(seed*32452843 + 16))
	var cs []core.Case
	for i := 0; i < nset; i++ {
		n := c16Sizes[i%len(c16Sizes)]
		if n >= 10000 && i%(len(c16Sizes)*4) >= len(c16Sizes) {
			n = 50 + r.Intn(3000) // big sets are expensive: one in four rounds
		}
		if r.Intn(5) == 0 {
			n = 1 + r.Intn(2000)
		}
		c := core.Case{ID: fmt.Sprintf("set%05d", i), Kind: "set", Seed: r.Int63(), N: map[string]int64{"n": int64(n)},
			S: map[string]string{"keys": []string{"binary", "prefix", "oneKey", "hostile"}[r.Intn(4)]}}
		if i == 5 {
			c.N["sample"] = 1
		}
		cs = append(cs, c)
	}
	for i := 0; i < ndir/6; i++ {
		cs = append(cs, core.Case{ID: fmt.Sprintf("mov%05d", i), Kind: "movedown", Seed: r.Int63()})
	}
	for i := 0; i < ndir; i++ {
		c := core.Case{ID: fmt.Sprintf("dir%05d", i), Kind: "dir", Seed: r.Int63(), S: map[string]string{"keys": []string{"hostile", "windowed", "long", "binary"}[r.Intn(4)]}, N: map[string]int64{}}
		if i == 0 {
			c.N["sample"] = 1
		}
		cs = append(cs, c)
	}
	return cs
}

func init() {
	core.Register(&core.Check{
		Prop: "C16", Level: "exploration",
		Rule: "set cases: filter.Build over 1..30000 generated entries (binary, shared-prefix, hostile keys; many versions of one key), Contains(user key) asked for every entry; dir cases: 2-8 flushes into a standalone level manager (some tables holding keys only as tombstones), interleaved with CheckAndCompact, CompactLN and watermark raises; every table handle's filter is asked for every entry of its table after each flush, after each compaction and after handles were rebuilt by recovery (before and after the final compaction), with lookups of absent keys in between; movedown cases: a table moves from L1 to L2 and meets exactly as many new entries as stale versions are discarded (same size, other content); non-trivial = set with >=100 entries and a key with >=2 versions / directory with >=100 (table, entry) pairs examined; distinct by seed+size+profile or layout hash",
		Gen:  genC16, Run: runC16, BatchSize: 25, GoMaxProcs: 1, Parallel: 8,
		MinNonTrivial: map[string]int{"quick": 60, "thorough": 2000},
		Assumptions:   []string{"per-table filters are read through the verif accessor FilterMisses under the level manager's lock"},
	})
}
