package checks

import (
	"context"
	"errors"
	"fmt"
	"math/rand"
	"runtime"
	"sort"
	"strings"
	"sync"
	"sync/atomic"
	"time"

	"github.com/B1NARY-GR0UP/originium/pkg/watermark"
	"github.com/anishathalye/porcupine"

	"verifharness/internal/core"
)

// C13: the watermark never passes unfinished work and always catches up.

// reference model: marks are applied in order; L is the logical mark.
type wmModel struct {
	pending map[uint64]int
	tracked map[uint64]bool
	L       uint64
}

func newWMModel() *wmModel {
	return &wmModel{pending: map[uint64]int{}, tracked: map[uint64]bool{}}
}

func (m *wmModel) apply(ts uint64, done bool) {
	if done {
		m.pending[ts]--
	} else {
		m.pending[ts]++
	}
	m.tracked[ts] = true
	for len(m.tracked) > 0 {
		var mn uint64
		first := true
		for t := range m.tracked {
			if first || t < mn {
				mn, first = t, false
			}
		}
		if m.pending[mn] > 0 {
			break
		}
		delete(m.tracked, mn)
		delete(m.pending, mn)
		if mn > m.L {
			m.L = mn
		}
	}
}

// smallest index begun more often than finished (0 = none)
func (m *wmModel) smallestUnfinished() uint64 {
	var mn uint64
	for t, n := range m.pending {
		if n > 0 && (mn == 0 || t < mn) {
			mn = t
		}
	}
	return mn
}

// waitReach polls until DoneUntil() >= want. A watermark that has not moved for 'patience' while
// nothing else is running is reported with the goroutine dump; the verdict is on the state.
func waitReach(w *watermark.WaterMark, want uint64, patience time.Duration) (uint64, bool) {
	deadline := time.Now().Add(patience)
	for {
		d := w.DoneUntil()
		if d >= want {
			return d, true
		}
		if time.Now().After(deadline) {
			return d, false
		}
		time.Sleep(20 * time.Microsecond)
	}
}

// c13Patience: how long a quiescent watermark or a waiter may take before its state is examined.
// 20 s (normal latency is microseconds); once a violation of this kind has been found in this
// process the remaining cases only wait 1 s, so that a broken tree does not cost hours.
var c13Hurry atomic.Bool

func c13Patience() time.Duration {
	if c13Hurry.Load() {
		return time.Second
	}
	return 20 * time.Second
}

func goroutineDump() string {
	c13Hurry.Store(true) // only called when something did not arrive in time

	buf := make([]byte, 1<<20)
	n := runtime.Stack(buf, true)
	return string(buf[:n])
}

// idxMap maps the small logical indices the scripts reason about to the indices handed to the
// watermark: strictly increasing, f(0)=0. kinds: 0 identity; 1 everything above j jumps to 2^63;
// 2 everything above j jumps to just below MaxUint64; 3 stride 2^40; 4 indices around 2^32;
// 5 indices around 2^31. The logical domain is [0, 2^21).
type idxMap struct {
	kind int
	j    uint64
}

func caseIdxMap(c core.Case) idxMap {
	return idxMap{kind: int(c.Int("imap", 0)), j: uint64(c.Int("imapj", 3))}
}

func (im idxMap) f(i uint64) uint64 {
	if i == 0 {
		return 0
	}
	switch im.kind {
	case 1:
		if i > im.j {
			return 1<<63 + (i - im.j)
		}
	case 2:
		if i > im.j {
			return ^uint64(0) - 1<<21 + (i - im.j)
		}
	case 3:
		return i << 40
	case 4:
		return 1<<32 - im.j + i
	case 5:
		return 1<<31 - im.j + i
	}
	return i
}

func (im idxMap) describe() string {
	switch im.kind {
	case 1:
		return fmt.Sprintf("i for i <= %d, 2^63+(i-%d) above", im.j, im.j)
	case 2:
		return fmt.Sprintf("i for i <= %d, MaxUint64-2^21+(i-%d) above", im.j, im.j)
	case 3:
		return "i<<40"
	case 4:
		return fmt.Sprintf("2^32-%d+i", im.j)
	case 5:
		return fmt.Sprintf("2^31-%d+i", im.j)
	}
	return "i"
}

// inv: the largest logical index whose image is <= d (an observed mark at or above f(i) and below
// f(i+1) has passed exactly the logical indices <= i)
func (im idxMap) inv(d uint64) uint64 {
	lo, hi := uint64(0), uint64(1<<21)
	for lo < hi {
		mid := (lo + hi + 1) / 2
		if im.f(mid) <= d {
			lo = mid
		} else {
			hi = mid - 1
		}
	}
	return lo
}

// waitReachL: waitReach in logical indices
func waitReachL(w *watermark.WaterMark, im idxMap, want uint64, patience time.Duration) (uint64, bool) {
	d, ok := waitReach(w, im.f(want), patience)
	return im.inv(d), ok
}

func wmSeq(c core.Case, res *core.Result) {
	r := rand.New(rand.NewSource(c.Seed))
	w := watermark.New()
	defer w.Stop()
	im := caseIdxMap(c)
	m := newWMModel()
	n := int(c.Int("ops", 200))
	maxIdx := uint64(c.Int("maxidx", 30))
	burst := c.Int("burst", 0) == 1
	var open []uint64
	var trace []string
	var last uint64
	reads, quiescent, repeated, outOfOrder, peakOpen := 0, 0, 0, 0, 0
	fail := func(sig, f string, a ...any) {
		res.Violate("C13", "C13/seq/"+sig, "%s\nlast calls (logical indices; index i is handed to the watermark as %s): %s", fmt.Sprintf(f, a...), im.describe(), strings.Join(trace[max(0, len(trace)-25):], " "))
	}
	observe := func(when string) bool {
		d := im.inv(w.DoneUntil())
		reads++
		if d < last {
			fail("decreased", "%s: DoneUntil went from %d to %d", when, last, d)
			return false
		}
		last = d
		if d > m.L {
			su := m.smallestUnfinished()
			fail("passed-unfinished", "%s: DoneUntil()=%d but the logical mark is %d (smallest index begun more often than finished: %d)", when, d, m.L, su)
			return false
		}
		return true
	}
	if c.Int("recoverydone", 0) == 1 {
		// Done without Begin as the very first mark, as recovery does
		t := uint64(1 + r.Intn(int(maxIdx)))
		w.Done(im.f(t))
		m.apply(t, true)
		trace = append(trace, fmt.Sprintf("Done(%d)!", t))
		if r.Intn(2) == 0 {
			// ... and, as the first reader after a restart does, Begin of that very index: it is
			// unfinished now (a Done only counts against an earlier Begin) and holds the mark back
			w.Begin(im.f(t))
			m.apply(t, false)
			open = append(open, t)
			trace = append(trace, fmt.Sprintf("Begin(%d)", t))
			w.Begin(im.f(t + 1))
			m.apply(t+1, false)
			w.Done(im.f(t + 1))
			m.apply(t+1, true)
			trace = append(trace, fmt.Sprintf("Begin(%d) Done(%d)", t+1, t+1))
		}
	}
	for i := 0; i < n && res.Verdict == ""; i++ {
		x := r.Intn(100)
		switch {
		case x < 45 || len(open) == 0 || (burst && x < 75 && len(open) < 160):
			var t uint64
			switch r.Intn(4) {
			case 0: // repeated index
				if len(open) > 0 {
					t = open[r.Intn(len(open))]
					repeated++
				} else {
					t = 1 + uint64(r.Intn(int(maxIdx)))
				}
			case 1: // non-monotone: possibly below the current mark
				t = 1 + uint64(r.Intn(int(maxIdx)))
			default: // mostly increasing, like timestamps
				t = m.L + 1 + uint64(r.Intn(5))
			}
			w.Begin(im.f(t))
			m.apply(t, false)
			open = append(open, t)
			trace = append(trace, fmt.Sprintf("Begin(%d)", t))
		case x < 85:
			j := r.Intn(len(open))
			if !burst && r.Intn(3) == 0 {
				j = 0
			}
			if j != 0 {
				outOfOrder++
			}
			t := open[j]
			open = append(open[:j], open[j+1:]...)
			w.Done(im.f(t))
			m.apply(t, true)
			trace = append(trace, fmt.Sprintf("Done(%d)", t))
		default:
			// quiescent point: every mark sent so far must take effect without further calls
			d, ok := waitReachL(w, im, m.L, c13Patience())
			quiescent++
			if !ok {
				fail("never-catches-up", "DoneUntil()=%d stays below the logical mark %d although no call is outstanding\n%s", d, m.L, goroutineDump())
				return
			}
		}
		if burst && len(open) < 150 && r.Intn(2) == 0 {
			continue // keep many marks in flight, fewer observations
		}
		peakOpen = max(peakOpen, len(open))
		if !observe(fmt.Sprintf("after call %d", i)) {
			return
		}
	}
	for _, t := range open {
		w.Done(im.f(t))
		m.apply(t, true)
		trace = append(trace, fmt.Sprintf("Done(%d)", t))
		if !observe("while finishing") {
			return
		}
	}
	d, ok := waitReachL(w, im, m.L, c13Patience())
	if !ok {
		fail("never-catches-up", "after every index was finished DoneUntil()=%d stays below %d\n%s", d, m.L, goroutineDump())
		return
	}
	if d != m.L {
		fail("passed-unfinished", "final DoneUntil()=%d, logical mark %d", d, m.L)
	}
	res.AddObs("seq_calls", int64(len(trace)))
	res.AddObs("seq_observations", int64(reads))
	res.AddObs("seq_quiescent_points", int64(quiescent+1))
	res.AddObs("seq_repeated_index_begins", int64(repeated))
	res.AddObs("seq_out_of_order_dones", int64(outOfOrder))
	if peakOpen > 100 {
		res.AddObs("seq_scripts_>100_in_flight", 1)
	}
	res.NonTrivial = repeated > 0 && outOfOrder > 0
	if im.kind != 0 {
		res.AddObs(fmt.Sprintf("seq_scripts_index_map_%d", im.kind), 1)
		trace = append(trace, fmt.Sprintf("imap%d/%d", im.kind, im.j))
	}
	res.Hash = core.HashOf(trace)
	if c.Int("sample", 0) == 1 {
		res.Sample = map[string]any{"kind": "seq", "calls": trace[:min(30, len(trace))], "final_mark": m.L}
	}
}

// concurrent monitor -----------------------------------------------------------------------------

const wmNI = 12

type wmState struct {
	Pend [wmNI]int8
	In   [wmNI]bool
	D    uint8
}

type wmIn struct {
	Kind int // 0 begin 1 done 2 read
	Ts   uint8
}

var wmPorcModel = porcupine.Model{
	Init: func() any { return wmState{} },
	Step: func(st, in, out any) (bool, any) {
		s := st.(wmState)
		i := in.(wmIn)
		switch i.Kind {
		case 2:
			// publication may lag behind the logical mark, it may never be ahead of it
			return out.(uint8) <= s.D, s
		case 0:
			s.Pend[i.Ts]++
			s.In[i.Ts] = true
		case 1:
			s.Pend[i.Ts]--
			s.In[i.Ts] = true
		}
		for t := 0; t < wmNI; t++ {
			if !s.In[t] {
				continue
			}
			if s.Pend[t] > 0 {
				break
			}
			s.In[t] = false
			s.Pend[t] = 0
			if uint8(t) > s.D {
				s.D = uint8(t)
			}
		}
		return true, s
	},
	DescribeOperation: func(in, out any) string {
		i := in.(wmIn)
		switch i.Kind {
		case 0:
			return fmt.Sprintf("Begin(%d)", i.Ts)
		case 1:
			return fmt.Sprintf("Done(%d)", i.Ts)
		}
		return fmt.Sprintf("DoneUntil()=%v", out)
	},
}

func wmConc(c core.Case, res *core.Result) {
	w := watermark.New()
	defer w.Stop()
	im := caseIdxMap(c)
	var clock atomic.Int64
	var mu sync.Mutex
	var ops []porcupine.Operation
	var wg sync.WaitGroup
	G := int(c.Int("goroutines", 4))
	N := int(c.Int("ops", 25))
	var maxTs atomic.Uint64
	var monoBad atomic.Value
	for g := 0; g < G; g++ {
		wg.Add(1)
		go func(g int) {
			defer wg.Done()
			r := rand.New(rand.NewSource(c.Seed*100 + int64(g)))
			var open []uint8
			var local []porcupine.Operation
			var lastSeen uint8
			rec := func(in wmIn, f func() any) any {
				cl := clock.Add(1)
				o := f()
				local = append(local, porcupine.Operation{ClientId: g, Input: in, Call: cl, Output: o, Return: clock.Add(1)})
				return o
			}
			for i := 0; i < N; i++ {
				switch x := r.Intn(10); {
				case x < 4:
					ts := uint8(1 + r.Intn(wmNI-1))
					rec(wmIn{0, ts}, func() any { w.Begin(im.f(uint64(ts))); return nil })
					open = append(open, ts)
					for {
						m := maxTs.Load()
						if uint64(ts) <= m || maxTs.CompareAndSwap(m, uint64(ts)) {
							break
						}
					}
				case x < 7 && len(open) > 0:
					j := r.Intn(len(open))
					ts := open[j]
					open = append(open[:j], open[j+1:]...)
					rec(wmIn{1, ts}, func() any { w.Done(im.f(uint64(ts))); return nil })
				default:
					d := rec(wmIn{2, 0}, func() any { return uint8(im.inv(w.DoneUntil())) }).(uint8)
					if d < lastSeen {
						monoBad.Store(fmt.Sprintf("goroutine %d saw DoneUntil go from %d to %d", g, lastSeen, d))
					}
					lastSeen = d
				}
				if r.Intn(3) == 0 {
					time.Sleep(time.Duration(r.Intn(50)) * time.Microsecond)
				}
			}
			for _, ts := range open {
				rec(wmIn{1, ts}, func() any { w.Done(im.f(uint64(ts))); return nil })
			}
			mu.Lock()
			ops = append(ops, local...)
			mu.Unlock()
		}(g)
	}
	wg.Wait()
	if s, ok := monoBad.Load().(string); ok {
		res.Violate("C13", "C13/conc/decreased", "%s", s)
	}
	// everything begun has been finished: the mark must reach the largest index without further calls
	if want := maxTs.Load(); want > 0 {
		if d, ok := waitReachL(w, im, want, c13Patience()); !ok {
			res.Violate("C13", "C13/conc/never-catches-up", "every begun index is finished but DoneUntil()=%d stays below %d\n%s", d, want, goroutineDump())
		}
	}
	r := porcupine.CheckOperationsTimeout(wmPorcModel, ops, 20*time.Second)
	switch r {
	case porcupine.Illegal:
		sort.Slice(ops, func(i, j int) bool { return ops[i].Call < ops[j].Call })
		var sb []string
		for _, o := range ops {
			sb = append(sb, fmt.Sprintf("g%d[%d..%d]%s", o.ClientId, o.Call, o.Return, wmPorcModel.DescribeOperation(o.Input, o.Output)))
		}
		res.Violate("C13", "C13/conc/passed-unfinished", "no linearization of the Begin/Done calls explains the observed DoneUntil values (a value was ahead of the logical mark):\n%s", strings.Join(sb, " "))
	case porcupine.Unknown:
		res.Verdict = "inconclusive"
		res.Inconcl = "watermark history checker timed out"
	}
	res.AddObs("conc_histories", 1)
	res.AddObs("conc_operations", int64(len(ops)))
	res.NonTrivial = G >= 2 && len(ops) > 10
	res.Hash = fmt.Sprintf("wmconc-%d-%d-%d-%d", c.Seed, G, N, im.kind)
	if c.Int("sample", 0) == 1 {
		res.Sample = map[string]any{"kind": "conc", "goroutines": G, "ops": len(ops)}
	}
}

// WaitForMark monitor ----------------------------------------------------------------------------

func wmWait(c core.Case, res *core.Result) {
	r := rand.New(rand.NewSource(c.Seed))
	w := watermark.New()
	stopped := false
	defer func() {
		if !stopped {
			w.Stop()
		}
	}()
	im := caseIdxMap(c)
	type waiter struct {
		t        uint64
		done     chan error
		after    atomic.Uint64 // DoneUntil read right after WaitForMark returned nil
		cancel   context.CancelFunc
		never    bool
		canceled bool
		exited   chan struct{} // closed when the waiter goroutine has returned
	}
	top := uint64(5 + r.Intn(20))
	if im.kind == 1 || im.kind == 2 {
		im.j %= top // the jump lies inside the range of indices used
	}
	var ws []*waiter
	// Stop closes the mark channel: no waiter goroutine may still be on its way into WaitForMark
	// then (it would panic with 'send on closed channel' - a fault of this harness, not of the code)
	defer func() {
		for _, wt := range ws {
			wt.cancel()
		}
		for _, wt := range ws {
			select {
			case <-wt.exited:
			case <-time.After(c13Patience()):
			}
		}
	}()
	start := func(t uint64, never bool) *waiter {
		ctx, cancel := context.WithCancel(context.Background())
		wt := &waiter{t: t, done: make(chan error, 1), cancel: cancel, never: never, exited: make(chan struct{})}
		go func() {
			defer close(wt.exited)
			err := w.WaitForMark(ctx, im.f(t))
			if err == nil {
				wt.after.Store(im.inv(w.DoneUntil()))
			}
			wt.done <- err
		}()
		ws = append(ws, wt)
		return wt
	}
	// indices 1..top begun in order
	for t := uint64(1); t <= top; t++ {
		w.Begin(im.f(t))
	}
	// waiters registered before the mark advances: several on one index, some beyond top (never reached)
	nBefore := 1 + r.Intn(12)
	hot := 1 + uint64(r.Intn(int(top)))
	for i := 0; i < nBefore; i++ {
		switch r.Intn(4) {
		case 0:
			start(top+1+uint64(r.Intn(5)), true)
		case 1:
			start(hot, false)
		default:
			start(1+uint64(r.Intn(int(top))), false)
		}
	}
	// finish in random order, registering more waiters in between (before/after their index is reached)
	order := r.Perm(int(top))
	for _, i := range order {
		w.Done(im.f(uint64(i + 1)))
		if r.Intn(3) == 0 {
			start(1+uint64(r.Intn(int(top))), false)
		}
		if r.Intn(8) == 0 {
			time.Sleep(time.Duration(r.Intn(100)) * time.Microsecond)
		}
	}
	if d, ok := waitReachL(w, im, top, c13Patience()); !ok {
		res.Violate("C13", "C13/wait/never-catches-up", "DoneUntil()=%d stays below %d after every index was finished\n%s", d, top, goroutineDump())
		return
	}
	// waiters on reached indices registered after the fact
	for i := 0; i < 1+r.Intn(4); i++ {
		start(1+uint64(r.Intn(int(top))), false)
	}
	reached, cancelled := 0, 0
	for _, wt := range ws {
		if wt.never {
			continue
		}
		// DoneUntil >= t has been observed: the waiter must return without further calls
		select {
		case err := <-wt.done:
			if err != nil {
				res.Violate("C13", "C13/wait/error-although-reached", "WaitForMark(%d) returned %v although DoneUntil reached %d", wt.t, err, top)
			} else if a := wt.after.Load(); a < wt.t {
				res.Violate("C13", "C13/wait/returned-early", "WaitForMark(%d) returned nil but DoneUntil() read %d right afterwards", wt.t, a)
			}
			reached++
		case <-time.After(c13Patience()):
			dump := goroutineDump()
			if strings.Contains(dump, "WaitForMark") {
				res.Violate("C13", "C13/wait/lost-wakeup", "DoneUntil()=%d >= %d was observed 20 s ago and the waiter is still parked in WaitForMark\n%s", im.inv(w.DoneUntil()), wt.t, dump)
			} else {
				res.Verdict = "inconclusive"
				res.Inconcl = "waiter did not report within 20 s but is not parked in WaitForMark"
			}
			return
		}
	}
	for _, wt := range ws {
		if !wt.never {
			continue
		}
		// must still be waiting; ends with the context error once the context ends
		select {
		case err := <-wt.done:
			res.Violate("C13", "C13/wait/returned-unreached", "WaitForMark(%d) returned %v although DoneUntil()=%d never reached it", wt.t, err, im.inv(w.DoneUntil()))
			continue
		default:
		}
		wt.cancel()
		select {
		case err := <-wt.done:
			if !errors.Is(err, context.Canceled) {
				res.Violate("C13", "C13/wait/wrong-context-error", "WaitForMark(%d) returned %v after its context was cancelled, want context.Canceled", wt.t, err)
			}
			cancelled++
		case <-time.After(c13Patience()):
			res.Violate("C13", "C13/wait/ignores-context", "WaitForMark(%d) did not return 20 s after its context was cancelled\n%s", wt.t, goroutineDump())
			return
		}
	}
	// second phase: the indices the cancelled waiters were registered for are reached now; waiters
	// that start afterwards on far indices must still wait (nothing stale may wake them)
	for t := top + 1; t <= top+8; t++ {
		w.Begin(im.f(t))
	}
	for t := top + 1; t <= top+8; t++ {
		w.Done(im.f(t))
	}
	if d, ok := waitReachL(w, im, top+8, c13Patience()); !ok {
		res.Violate("C13", "C13/wait/never-catches-up", "second phase: DoneUntil()=%d stays below %d\n%s", d, top+8, goroutineDump())
		return
	}
	var late []*waiter
	for i := 0; i < 6; i++ {
		late = append(late, start(top+100+uint64(i), true))
	}
	time.Sleep(2 * time.Millisecond)
	for _, wt := range late {
		select {
		case err := <-wt.done:
			res.Violate("C13", "C13/wait/returned-unreached", "WaitForMark(%d) returned %v although DoneUntil()=%d (a waiter cancelled earlier on a lower index had been registered)", wt.t, err, im.inv(w.DoneUntil()))
		default:
		}
		wt.cancel()
	}
	// a context that is already over, on an unreachable index
	ctx, cancel := context.WithTimeout(context.Background(), time.Millisecond)
	err := w.WaitForMark(ctx, im.f(top+100))
	cancel()
	if !errors.Is(err, context.DeadlineExceeded) {
		res.Violate("C13", "C13/wait/wrong-context-error", "WaitForMark on an unreachable index with a 1 ms deadline returned %v", err)
	}
	for _, wt := range ws {
		wt.cancel()
	}
	// Stop with waiters parked on indices that were never reached: nil means "DoneUntil >= t", so a
	// stopped watermark may only answer them through their contexts. Every other waiter goroutine
	// has to be gone first (Stop closes the mark channel), and the three must really be parked.
	if res.Verdict == "" {
		allGone := true
		for _, wt := range ws {
			select {
			case <-wt.exited:
			case <-time.After(c13Patience()):
				allGone = false
			}
		}
		if allGone {
			var sw []*waiter
			for i := 0; i < 3; i++ {
				sw = append(sw, start(top+200+uint64(i), true))
			}
			parked := false
			for deadline := time.Now().Add(5 * time.Second); time.Now().Before(deadline); time.Sleep(200 * time.Microsecond) {
				if wmParkedWaiters() >= 3 {
					parked = true
					break
				}
			}
			if parked {
				w.Stop()
				stopped = true
				time.Sleep(2 * time.Millisecond)
				for _, wt := range sw {
					select {
					case err := <-wt.done:
						res.Violate("C13", "C13/wait/returned-unreached-at-stop", "WaitForMark(%d) returned %v when the watermark was stopped although DoneUntil()=%d never reached it", wt.t, err, im.inv(w.DoneUntil()))
						continue
					default:
					}
					wt.cancel()
					select {
					case err := <-wt.done:
						if !errors.Is(err, context.Canceled) {
							res.Violate("C13", "C13/wait/wrong-context-error", "WaitForMark(%d) on a stopped watermark returned %v after its context was cancelled, want context.Canceled", wt.t, err)
						}
					case <-time.After(c13Patience()):
						res.Violate("C13", "C13/wait/ignores-context", "WaitForMark(%d) on a stopped watermark did not return after its context was cancelled\n%s", wt.t, goroutineDump())
					}
				}
				res.AddObs("wait_scenarios_stopped_with_parked_waiters", 1)
			}
		}
	}
	res.AddObs("wait_waiters_returned", int64(reached))
	res.AddObs("wait_waiters_cancelled", int64(cancelled+1))
	res.NonTrivial = reached >= 2
	if im.kind != 0 {
		res.AddObs(fmt.Sprintf("wait_scenarios_index_map_%d", im.kind), 1)
	}
	res.Hash = fmt.Sprintf("wmwait-%d-%d", c.Seed, im.kind)
	if c.Int("sample", 0) == 1 {
		res.Sample = map[string]any{"kind": "wait", "indices": top, "waiters": len(ws), "finish_order": order}
	}
}

// wmParkedWaiters counts the goroutines of this process that sit in the select of WaitForMark (their
// mark has been handed over: they are past the channel send).
func wmParkedWaiters() int {
	buf := make([]byte, 1<<20)
	n := runtime.Stack(buf, true)
	cnt := 0
	for _, g := range strings.Split(string(buf[:n]), "\n\n") {
		if strings.Contains(g, "[select") && strings.Contains(g, "(*WaterMark).WaitForMark") {
			cnt++
		}
	}
	return cnt
}

// wmFlood: a tight loop of Begin(i); Done(i) far beyond the channel buffer, no observation in
// between; afterwards the mark must reach the last index without further calls.
func wmFlood(c core.Case, res *core.Result) {
	w := watermark.New()
	defer w.Stop()
	n := uint64(c.Int("n", 5000))
	step := uint64(1 + c.Int("gap", 0))
	var last uint64
	for i := uint64(1); i <= n; i += step {
		w.Begin(i)
		if c.Int("pairs", 1) == 2 {
			w.Begin(i)
			w.Done(i)
		}
		w.Done(i)
		last = i
	}
	d, ok := waitReach(w, last, c13Patience())
	if !ok {
		res.Violate("C13", "C13/flood/never-catches-up", "after %d Begin/Done pairs in a tight loop DoneUntil()=%d stays below %d although every begun index is finished\n%s", n/step, d, last, goroutineDump())
	} else if d != last {
		res.Violate("C13", "C13/flood/passed-unfinished", "DoneUntil()=%d after the last finished index %d", d, last)
	}
	res.AddObs("flood_pairs", int64(n/step))
	res.NonTrivial = n > 200
	res.Hash = fmt.Sprintf("flood-%d-%d-%d", n, step, c.Int("pairs", 1))
}

func runC13(c core.Case) core.Result {
	var res core.Result
	defer func() {
		if im := caseIdxMap(c); im.kind != 0 {
			for i := range res.Violations {
				res.Violations[i].Detail = "(indices below are logical; index i is handed to the watermark as " + im.describe() + ")\n" + res.Violations[i].Detail
			}
		}
	}()
	switch c.Kind {
	case "flood":
		wmFlood(c, &res)
	case "seq":
		wmSeq(c, &res)
	case "conc":
		wmConc(c, &res)
	case "wait":
		wmWait(c, &res)
	}
	return res
}

func genC13(tier string, seed int64) []core.Case {
	ns, nc, nw := 500, 100, 100
	if tier == "thorough" {
		ns, nc, nw = 20000, 3000, 3000
	}
	r := rand.New(rand.NewSource(seed*982451653 + 13))
	var cs []core.Case
	for i := 0; i < ns; i++ {
		c := core.Case{ID: fmt.Sprintf("seq%05d", i), Kind: "seq", Seed: r.Int63(), N: map[string]int64{"ops": int64(50 + r.Intn(400)), "maxidx": int64(5 + r.Intn(60))}}
		if i%10 == 3 {
			c.N["burst"] = 1
			c.N["ops"] = 600
		}
		if i%4 == 1 {
			c.N["recoverydone"] = 1
		}
		if i == 0 {
			c.N["sample"] = 1
		}
		if i%5 == 2 {
			c.N["imap"] = int64(1 + (i/5)%5)
			c.N["imapj"] = int64(r.Intn(12))
		}
		cs = append(cs, c)
	}
	for i := 0; i < nc; i++ {
		c := core.Case{ID: fmt.Sprintf("con%05d", i), Kind: "conc", Seed: r.Int63(), N: map[string]int64{"goroutines": int64(2 + i%5), "ops": 25}}
		if i%4 == 1 {
			c.N["imap"] = int64(1 + (i/4)%5)
			c.N["imapj"] = int64(r.Intn(wmNI))
		}
		if i == 0 {
			c.N["sample"] = 1
		}
		cs = append(cs, c)
	}
	nf := 6
	if tier == "thorough" {
		nf = 60
	}
	for i := 0; i < nf; i++ {
		cs = append(cs, core.Case{ID: fmt.Sprintf("flo%05d", i), Kind: "flood", Seed: r.Int63(), N: map[string]int64{"n": int64(2000 + r.Intn(20000)), "gap": int64(i % 3), "pairs": int64(1 + i%2)}})
	}
	for i := 0; i < nw; i++ {
		c := core.Case{ID: fmt.Sprintf("wai%05d", i), Kind: "wait", Seed: r.Int63(), N: map[string]int64{}}
		if i%3 == 1 {
			c.N["imap"] = int64(1 + (i/3)%5)
			c.N["imapj"] = int64(r.Intn(30))
		}
		if i == 0 {
			c.N["sample"] = 1
		}
		cs = append(cs, c)
	}
	return cs
}

func c13SelfTest() error {
	m := newWMModel()
	m.apply(3, true) // recovery: Done without Begin
	if m.L != 3 {
		return fmt.Errorf("watermark model: Done(3) first gives %d", m.L)
	}
	m.apply(4, false)
	m.apply(5, false)
	m.apply(5, true)
	if m.L != 3 {
		return fmt.Errorf("watermark model: mark passed unfinished 4: %d", m.L)
	}
	m.apply(4, true)
	if m.L != 5 {
		return fmt.Errorf("watermark model: mark did not catch up: %d", m.L)
	}
	// porcupine model refuses a read ahead of the logical mark
	ops := []porcupine.Operation{
		{ClientId: 0, Input: wmIn{0, 2}, Call: 1, Return: 2},
		{ClientId: 0, Input: wmIn{0, 3}, Call: 3, Return: 4},
		{ClientId: 0, Input: wmIn{1, 3}, Call: 5, Return: 6},
		{ClientId: 1, Input: wmIn{2, 0}, Output: uint8(3), Call: 7, Return: 8},
	}
	if porcupine.CheckOperations(wmPorcModel, ops) {
		return fmt.Errorf("watermark history model accepts DoneUntil=3 while 2 is unfinished")
	}
	ops[3].Output = uint8(0)
	if !porcupine.CheckOperations(wmPorcModel, ops) {
		return fmt.Errorf("watermark history model rejects a lagging DoneUntil")
	}
	return nil
}

func init() {
	core.Register(&core.Check{
		Prop: "C13", Level: "exploration",
		Rule: "seq cases: one goroutine issues 50-600 Begin/Done calls (repeated indices, indices below the current mark, out-of-order Done, bursts with >100 marks in flight, Done-without-Begin as the very first mark); marks are processed in call order so the logical mark after each call is known from a reference model: every sampled DoneUntil must be <= it, never decrease, and reach it at quiescent points without further calls; conc cases: 2-6 goroutines x 25 calls, Done only after the own Begin returned, history of Begin/Done/DoneUntil checked with porcupine (a read is legal iff <= the logical mark at its linearization point), monotone per observer, catches up at the end; flood cases: 2000-22000 Begin/Done pairs in a tight loop (far more than the channel buffer), then the mark must reach the last index; wait cases: 5-25 indices, waiters registered before/after their index is reached, several on one index, on never-reached indices with cancellation and deadline; non-trivial = script with a repeated index and an out-of-order Done / history with >=2 goroutines / >=2 waiters returned; distinct by call sequence hash or seed",
		Gen:  genC13, Run: runC13, SelfTest: c13SelfTest, BatchSize: 60, GoMaxProcs: 4, Parallel: 8,
		MinNonTrivial: map[string]int{"quick": 300, "thorough": 10000},
		Assumptions: []string{"'once every begun index up to t is finished DoneUntil reaches t' is judged for t that was itself begun", "Done-without-Begin is issued only as the very first mark (the recovery usage)",
			"catch-up is decided as: not reached 20 s after the last call while no call is outstanding (normal latency: microseconds); the goroutine dump is attached"},
	})
}
