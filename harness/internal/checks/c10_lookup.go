package checks

import (
	"fmt"
	"math/rand"
	"os"
	"path/filepath"

	"github.com/B1NARY-GR0UP/originium"

	"verifharness/internal/core"
)

// C10: table lookup finds the newest version at or below the read timestamp.

// small universe: 3 user keys x versions 1..3, each entry absent / in table 1 / in table 2.
var c10Users = []string{"a", "a@", "b"}

func c10Universe() []vEntry {
	var es []vEntry
	for _, u := range c10Users {
		for ts := uint64(1); ts <= 3; ts++ {
			e := vEntry{User: u, Ts: ts, Val: fmt.Sprintf("%s.%d", u, ts)}
			if u == "a@" && ts == 2 {
				e = vEntry{User: u, Ts: ts, Tomb: true}
			}
			es = append(es, e)
		}
	}
	return es
}

// checkLookups compares Lookup with the model for every key (plus absent keys) x every probe ts.
func checkLookups(lv *originium.VerifLevels, set entrySet, users []string, extraKeys []string, stage string, minTs uint64, res *core.Result, prop, sigp string) (n int) {
	keys := append(append([]string{}, users...), extraKeys...)
	for _, u := range keys {
		for _, ts := range set.tsProbes(u, minTs, minTs+1) {
			if ts < minTs {
				continue
			}
			n++
			got, ok := lv.Lookup(u, ts)
			want, wok := set.lookup(u, ts)
			if !sameEntry(got, ok, want, wok) {
				kind := "wrong-version"
				switch {
				case !ok && wok:
					kind = "missed"
				case ok && !wok:
					kind = "phantom"
				case ok && wok && got.Key == want.entry().Key:
					kind = "wrong-content"
				}
				res.Violate(prop, sigp+"/"+stage+"/"+kind, "%s: Lookup(%q, ts=%d) = %s, model (newest version <= ts over all stored entries) = %s", stage, u, ts, descGot(got, ok), descWant(want, wok))
				return n
			}
		}
	}
	return n
}

func runC10(c core.Case) core.Result {
	var res core.Result
	base := core.WorkerScratch()
	switch c.Kind {
	case "universe":
		uni := c10Universe()
		prefix := int(c.Int("prefix", 0)) // digits 5..8 (base 3)
		block := int(c.Int("block", 1))
		lookups, layouts, nt := 0, 0, 0
		for low := 0; low < 243 && res.Verdict == ""; low++ {
			code := prefix*243 + low
			var t1, t2 []vEntry
			x := code
			for i := 0; i < 9; i++ {
				switch x % 3 {
				case 1:
					t1 = append(t1, uni[i])
				case 2:
					t2 = append(t2, uni[i])
				}
				x /= 3
			}
			dir := filepath.Join(base, fmt.Sprintf("u%d", code))
			mustMkdir(dir)
			lv := originium.VerifNewLevels(dir, 4, 10, block)
			set := entrySet{}
			for _, t := range [][]vEntry{t1, t2} {
				if len(t) == 0 {
					continue
				}
				sortEntries(t)
				if err := lv.Flush(toEntries(t)); err != nil {
					res.Violate("C10", "C10/flush-error", "flush: %v", err)
				}
				for _, e := range t {
					set.add(e)
				}
			}
			layouts++
			if len(t1) > 0 && len(t2) > 0 {
				nt++
			}
			desc := fmt.Sprintf("layout %d block=%d table1=%v table2=%v", code, block, t1, t2)
			before := len(res.Violations)
			lookups += checkLookups(lv, set, c10Users, []string{"a!", "c"}, "fresh", 0, &res, "C10", "C10/universe")
			if res.Verdict == "" {
				rv, _ := lv.Recover()
				lookups += checkLookups(rv, set, c10Users, []string{"a!", "c"}, "recovered", 0, &res, "C10", "C10/universe")
				rv.Close()
			}
			if len(res.Violations) > before {
				res.Violations[len(res.Violations)-1].Detail += "\n" + desc
			}
			lv.Close()
			os.RemoveAll(dir)
		}
		res.AddObs("layouts", int64(layouts))
		res.AddObs("lookups", int64(lookups))
		res.AddObs("layouts_two_tables", int64(nt))
		res.NonTrivial = nt > 0
		res.Hash = fmt.Sprintf("universe-%d-%d", prefix, block)
		if prefix%27 == 0 {
			res.Sample = map[string]any{"kind": "universe", "prefix": prefix, "block": block, "layouts": layouts, "lookups": lookups,
				"universe": fmt.Sprint(c10Universe()), "queries": "keys a, a@, b, a!, c x ts 0..4 (+13), fresh handles and handles rebuilt by recovery"}
		}
	case "random":
		r := rand.New(rand.NewSource(c.Seed))
		ls := genLayout(r, c.Str("keys", "hostile"), 12, 30)
		// versions moved up as a whole: around 2^32, across 2^63 (Version is an int64 and turns
		// negative there, the key suffix does not), just below MaxUint64
		tsBase := []uint64{0, 1<<32 - 4, 1<<63 - 3, ^uint64(0) - 1000}[c.Int("tsbase", 0)]
		for _, f := range ls.Flushes {
			for i := range f {
				f[i].Ts += tsBase
			}
		}
		if tsBase != 0 {
			res.AddObs(fmt.Sprintf("layouts_versions_from_%d", tsBase), 1)
		}
		dir := filepath.Join(base, c.ID)
		mustMkdir(dir)
		defer os.RemoveAll(dir)
		lv := originium.VerifNewLevels(dir, ls.L0, ls.Ratio, ls.BlockSize)
		defer lv.Close()
		set := entrySet{}
		for _, f := range ls.Flushes {
			if err := lv.Flush(toEntries(f)); err != nil {
				res.Violate("C10", "C10/flush-error", "flush: %v", err)
				return res
			}
			for _, e := range f {
				set.add(e)
			}
			// move tables down the levels the way the engine does (watermark 0: nothing is discarded)
			switch r.Intn(4) {
			case 0:
				lv.CheckAndCompact()
			case 1:
				if r.Intn(3) == 0 {
					lv.CompactLN(1 + r.Intn(2))
				}
			}
		}
		absent := []string{"\x00", "zzzz", "a!!", "k/", "nope"}
		for i := 0; i < 20; i++ {
			absent = append(absent, fmt.Sprintf("absent%d", r.Intn(1000)))
		}
		dump := lv.Tables()
		lookups := checkLookups(lv, set, ls.Users, absent, "fresh", 0, &res, "C10", "C10/random")
		if res.Verdict == "" {
			rv, _ := lv.Recover()
			lookups += checkLookups(rv, set, ls.Users, absent, "recovered", 0, &res, "C10", "C10/random")
			rv.Close()
		}
		if res.Verdict != "" {
			res.Violations[len(res.Violations)-1].Detail += fmt.Sprintf("\nlayout: %v\nlevels: %v", describeLayout(ls), lv.LevelLens())
		}
		// non-trivial: some key has versions in >= 2 tables, or some table has >= 2 blocks
		multiTable, multiBlock, maxLevel := false, false, 0
		where := map[string]int{}
		for _, t := range dump {
			seen := map[string]bool{}
			for _, e := range t.Entries {
				u := e.Key[:lastAt(e.Key)]
				if !seen[u] {
					seen[u] = true
					where[u]++
				}
			}
			if t.Blocks >= 2 {
				multiBlock = true
			}
			if t.Level > maxLevel {
				maxLevel = t.Level
			}
		}
		for _, n := range where {
			if n >= 2 {
				multiTable = true
			}
		}
		res.AddObs("lookups", int64(lookups))
		res.AddObs("tables", int64(len(dump)))
		res.AddObs(fmt.Sprintf("layouts_maxlevel_%d", maxLevel), 1)
		if multiBlock {
			res.AddObs("layouts_multiblock", 1)
		}
		res.NonTrivial = multiTable && multiBlock
		res.Hash = core.HashOf(ls)
		if c.Int("sample", 0) == 1 {
			res.Sample = map[string]any{"kind": "random", "layout": describeLayout(ls), "levels": lv.LevelLens(), "lookups": lookups}
		}
	}
	return res
}

func lastAt(s string) int {
	for i := len(s) - 1; i >= 0; i-- {
		if s[i] == '@' {
			return i
		}
	}
	return 0
}

func genC10(tier string, seed int64) []core.Case {
	var cs []core.Case
	for _, block := range []int64{1, 4096} {
		for p := 0; p < 81; p++ {
			if tier == "quick" && (int64(p)+seed)%8 != 0 {
				continue
			}
			cs = append(cs, core.Case{ID: fmt.Sprintf("uni-b%d-p%02d", block, p), Kind: "universe", N: map[string]int64{"prefix": int64(p), "block": block}})
		}
	}
	n := 300
	if tier == "thorough" {
		n = 5000
	}
	r := rand.New(rand.NewSource(seed*104729 + 10))
	for i := 0; i < n; i++ {
		c := core.Case{ID: fmt.Sprintf("rnd%05d", i), Kind: "random", Seed: r.Int63(), S: map[string]string{"keys": []string{"hostile", "prefix", "windowed", "long", "binary", "prefix"}[r.Intn(6)]}, N: map[string]int64{}}
		if i < 2 {
			c.N["sample"] = 1
		}
		if i%6 == 3 {
			c.N["tsbase"] = int64(1 + (i/6)%3)
		}
		cs = append(cs, c)
	}
	return cs
}

func init() {
	core.Register(&core.Check{
		Prop: "C10", Level: "exploration",
		Rule: "universe cases: 243 layouts each of the 3^9 ways to place 9 entries (keys a, a@, b x versions 1..3, one tombstone) absent/in table 1/in table 2, block size 1 (one entry per block) or 4096, all 5 keys x 6 timestamps queried on fresh handles and on handles rebuilt from the files (thorough = the whole space, quick = a seeded 1/8 slice); random cases: 2-12 flushes over hostile/windowed/long/binary keys, moved down the levels by compactions, in every sixth case with all versions moved up to around 2^32, across 2^63 or just below MaxUint64, all keys + 25 absent keys x all interesting timestamps; oracle = brute-force newest version <= ts; non-trivial = a key with versions in >=2 tables and a multi-block table (random) / both tables populated (universe); distinct by layout hash",
		Gen:  genC10, Run: runC10, BatchSize: 6, GoMaxProcs: 1, Parallel: 8,
		MinNonTrivial: map[string]int{"quick": 40, "thorough": 1500},
		Exhaustive:    func(tier string) bool { return false },
		Assumptions:   []string{"tables are built only from sorted lists of unique versioned keys, and equal versions have equal content, as the engine guarantees", "levels are populated through the engine's own flush and compaction code (verif accessors)"},
		Post: func(tier string, results []core.Result, cov map[string]any) {
			if tier == "thorough" {
				n := 0
				for _, r := range results {
					if len(r.ID) > 3 && r.ID[:3] == "uni" && r.Verdict == "ok" {
						n++
					}
				}
				cov["universe_exhaustive"] = n == 162
				cov["explanation"] = "exhaustive only for the small universe sub-space (162 universe cases = 39366 layouts); the random layouts are sampled"
			}
		},
	})
}
