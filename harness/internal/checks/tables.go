package checks

import (
	"fmt"
	"math/rand"
	"os"
	"sort"
	"strings"

	"github.com/B1NARY-GR0UP/originium"
	"github.com/B1NARY-GR0UP/originium/types"

	_ "verifharness/internal/eng" // installs the quiet logger and the hook handler
	"verifharness/internal/gen"
)

// Shared by C09, C10, C16: the harness' own idea of a multiset of versioned entries and the
// brute-force lookup "newest version <= ts" over it. It never uses the engine's comparator.

type vEntry struct {
	User string
	Ts   uint64
	Val  string
	Tomb bool
}

func (e vEntry) entry() types.Entry {
	return types.Entry{Key: types.KeyWithTs(e.User, e.Ts), Value: []byte(e.Val), Tombstone: e.Tomb, Version: int64(e.Ts)}
}

func (e vEntry) String() string {
	if e.Tomb {
		return fmt.Sprintf("%q@%d=<tombstone>", e.User, e.Ts)
	}
	return fmt.Sprintf("%q@%d=%q", e.User, e.Ts, e.Val)
}

// content of an entry is a function of (user, ts): duplicates across tables are identical, as
// the engine guarantees (a version is written once, by one commit).
func contentFor(user string, ts uint64, tombEvery int) vEntry {
	h := uint64(1469598103934665603)
	for i := 0; i < len(user); i++ {
		h = (h ^ uint64(user[i])) * 1099511628211
	}
	h = (h ^ ts) * 1099511628211
	e := vEntry{User: user, Ts: ts}
	if tombEvery > 0 && h%uint64(tombEvery) == 0 {
		e.Tomb = true
		return e
	}
	e.Val = fmt.Sprintf("v.%x.%d", h&0xffff, ts)
	if h%7 == 0 {
		e.Val = ""
	} else if h%5 == 0 {
		e.Val += strings.Repeat("x", int(h>>20%90))
	}
	return e
}

func sortEntries(es []vEntry) {
	sort.Slice(es, func(i, j int) bool { return slLess(es[i].User, es[i].Ts, es[j].User, es[j].Ts) })
}

// multiset of entries: user -> ts -> entry
type entrySet map[string]map[uint64]vEntry

func (s entrySet) add(e vEntry) {
	if s[e.User] == nil {
		s[e.User] = map[uint64]vEntry{}
	}
	s[e.User][e.Ts] = e
}

func (s entrySet) lookup(user string, ts uint64) (vEntry, bool) {
	var best vEntry
	found := false
	for t, e := range s[user] {
		if t <= ts && (!found || t > best.Ts) {
			best, found = e, true
		}
	}
	return best, found
}

func (s entrySet) count() int {
	n := 0
	for _, m := range s {
		n += len(m)
	}
	return n
}

func (s entrySet) users() []string {
	var us []string
	for u := range s {
		us = append(us, u)
	}
	sort.Strings(us)
	return us
}

// tsProbes returns the read timestamps worth asking for a key: 0, every version, version+-1, beyond.
func (s entrySet) tsProbes(user string, extra ...uint64) []uint64 {
	set := map[uint64]bool{0: true}
	var mx uint64
	for t := range s[user] {
		set[t] = true
		set[t+1] = true
		if t > 0 {
			set[t-1] = true
		}
		if t > mx {
			mx = t
		}
	}
	set[mx+10] = true
	for _, x := range extra {
		set[x] = true
	}
	var ts []uint64
	for t := range set {
		ts = append(ts, t)
	}
	sort.Slice(ts, func(i, j int) bool { return ts[i] < ts[j] })
	return ts
}

func sameEntry(got types.Entry, ok bool, want vEntry, wok bool) bool {
	if ok != wok {
		return false
	}
	if !ok {
		return true
	}
	return got.Key == types.KeyWithTs(want.User, want.Ts) && got.Tombstone == want.Tomb && string(got.Value) == want.Val && got.Version == int64(want.Ts)
}

func descGot(got types.Entry, ok bool) string {
	if !ok {
		return "not-found"
	}
	if got.Tombstone {
		return fmt.Sprintf("{%q tombstone ver=%d}", got.Key, got.Version)
	}
	return fmt.Sprintf("{%q=%q ver=%d}", got.Key, got.Value, got.Version)
}

func descWant(e vEntry, ok bool) string {
	if !ok {
		return "not-found"
	}
	return e.String()
}

// layout generation -------------------------------------------------------------------------------

type layoutSpec struct {
	Users     []string
	Flushes   [][]vEntry // each sorted, unique
	BlockSize int
	L0, Ratio int
}

// genLayout draws 2..maxFlush flushes of 1..maxPer entries over a small key universe with 1..6
// versions per key; about one flush in four repeats entries of an earlier flush (duplicates as
// left behind by a crash between flush and wal removal).
func genLayout(r *rand.Rand, keyProfile string, maxFlush, maxPer int) layoutSpec {
	nk := 2 + r.Intn(10)
	users := gen.Keys(r, keyProfile, nk)
	tombEvery := []int{0, 3, 5, 9}[r.Intn(4)]
	var ls layoutSpec
	ls.Users = users
	ls.BlockSize = gen.BlockThresholds[r.Intn(len(gen.BlockThresholds))]
	ls.L0 = 1 + r.Intn(3)
	ls.Ratio = 1 + r.Intn(3)
	nf := 2 + r.Intn(maxFlush-1)
	if r.Intn(6) == 0 {
		// a wide L0: many overlapping tables merged by one compaction
		ls.L0 = []int{5, 8, 9, 12}[r.Intn(4)]
		nf = ls.L0 + 1 + r.Intn(3)
	}
	nextTs := uint64(1)
	var all []vEntry
	for f := 0; f < nf; f++ {
		n := 1 + r.Intn(maxPer)
		seen := map[string]bool{}
		var es []vEntry
		for i := 0; i < n; i++ {
			var e vEntry
			if len(all) > 0 && r.Intn(4) == 0 && r.Intn(4) == 0 {
				e = all[r.Intn(len(all))] // duplicate of an older entry
			} else {
				u := users[r.Intn(len(users))]
				// timestamps mostly increase over time (as commits do) but tables may interleave
				ts := nextTs
				if r.Intn(3) == 0 {
					nextTs++
				}
				if r.Intn(10) == 0 && ts > 1 {
					ts = 1 + uint64(r.Intn(int(ts)))
				}
				e = contentFor(u, ts, tombEvery)
			}
			k := fmt.Sprintf("%s\x00%d", e.User, e.Ts)
			if seen[k] {
				continue
			}
			seen[k] = true
			es = append(es, e)
			all = append(all, e)
		}
		nextTs++
		sortEntries(es)
		ls.Flushes = append(ls.Flushes, es)
	}
	return ls
}

func toEntries(es []vEntry) []types.Entry {
	out := make([]types.Entry, len(es))
	for i, e := range es {
		out[i] = e.entry()
	}
	return out
}

// tablesToSet converts a dump into (entrySet, conflicts): conflicts lists versions which appear
// with different content in two places.
func dumpToSet(ts []originium.VerifTable) (entrySet, []string, int) {
	s := entrySet{}
	var conflicts []string
	n := 0
	for _, t := range ts {
		for _, e := range t.Entries {
			n++
			i := strings.LastIndex(e.Key, "@")
			if i < 0 {
				conflicts = append(conflicts, fmt.Sprintf("unversioned key %q in %d-%d.db", e.Key, t.Level, t.Idx))
				continue
			}
			var tsv uint64
			fmt.Sscanf(e.Key[i+1:], "%d", &tsv)
			ve := vEntry{User: e.Key[:i], Ts: tsv, Val: string(e.Value), Tomb: e.Tombstone}
			if int64(tsv) != e.Version {
				conflicts = append(conflicts, fmt.Sprintf("entry %q has Version %d in %d-%d.db", e.Key, e.Version, t.Level, t.Idx))
			}
			if old, ok := s[ve.User][ve.Ts]; ok && (old.Val != ve.Val || old.Tomb != ve.Tomb) {
				conflicts = append(conflicts, fmt.Sprintf("version %q differs between tables: %s vs %s", e.Key, old, ve))
			}
			s.add(ve)
		}
	}
	return s, conflicts, n
}

// tableOrderOK verifies that the entries of each table are strictly sorted (user asc, ts desc).
func tableOrderProblem(ts []originium.VerifTable) string {
	for _, t := range ts {
		var pu string
		var pt uint64
		for i, e := range t.Entries {
			j := strings.LastIndex(e.Key, "@")
			if j < 0 {
				return fmt.Sprintf("unversioned key %q", e.Key)
			}
			var tsv uint64
			fmt.Sscanf(e.Key[j+1:], "%d", &tsv)
			u := e.Key[:j]
			if i > 0 && !slLess(pu, pt, u, tsv) {
				return fmt.Sprintf("table %d-%d.db not strictly sorted at position %d: %q@%d then %q@%d", t.Level, t.Idx, i, pu, pt, u, tsv)
			}
			pu, pt = u, tsv
		}
	}
	return ""
}

func describeLayout(ls layoutSpec) map[string]any {
	var fl []string
	for _, f := range ls.Flushes {
		var es []string
		for _, e := range f {
			es = append(es, e.String())
			if len(es) >= 6 {
				es = append(es, fmt.Sprintf("…(%d entries)", len(f)))
				break
			}
		}
		fl = append(fl, strings.Join(es, ", "))
		if len(fl) >= 4 {
			fl = append(fl, fmt.Sprintf("…(%d flushes)", len(ls.Flushes)))
			break
		}
	}
	return map[string]any{"users": ls.Users, "block": ls.BlockSize, "l0": ls.L0, "ratio": ls.Ratio, "flushes": fl}
}

func mustMkdir(d string) {
	if err := os.MkdirAll(d, 0755); err != nil {
		panic(err)
	}
}
