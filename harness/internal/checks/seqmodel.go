package checks

import (
	"fmt"
	"math/rand"
	"os"
	"path/filepath"
	"strings"
	"sync"

	"github.com/B1NARY-GR0UP/originium"
	"github.com/B1NARY-GR0UP/originium/types"

	"verifharness/internal/core"
	"verifharness/internal/eng"
	"verifharness/internal/gen"
)

// Sequential reference-model driver shared by C01 (reads after commits across rotation, flush,
// compaction) and C02 (the same plus Close/Open cycles). One client goroutine; the model is a map
// updated at every acknowledged commit; every read is compared byte-wise.

type kvModel struct {
	cur  map[string]string   // key -> tag of current value ("" + present flag)
	live map[string]bool     // key present
	hist map[string][]string // key -> every tag ever committed to it (in order)
	vals map[string][]byte   // tag -> value bytes
}

func newKVModel() *kvModel {
	return &kvModel{cur: map[string]string{}, live: map[string]bool{}, hist: map[string][]string{}, vals: map[string][]byte{}}
}

type seqWrite struct {
	Key string
	Tag string // "" = delete
	Val []byte
}

func (m *kvModel) apply(ws []seqWrite) {
	for _, w := range ws {
		if w.Tag == "" {
			m.live[w.Key] = false
			m.hist[w.Key] = append(m.hist[w.Key], "<del>")
			continue
		}
		m.live[w.Key] = true
		m.cur[w.Key] = w.Tag
		m.hist[w.Key] = append(m.hist[w.Key], w.Tag)
		m.vals[w.Tag] = w.Val
	}
}

// classify a wrong read: lost / stale / resurrected / alien / corrupt
func (m *kvModel) classify(key string, got []byte, ok bool) string {
	if !ok {
		return "lost"
	}
	tag := gen.Tag(got)
	for _, t := range m.hist[key] {
		if t == tag {
			if string(m.vals[t]) != string(got) {
				return "corrupt"
			}
			if !m.live[key] {
				return "resurrected"
			}
			return "stale"
		}
	}
	return "alien"
}

func short(b []byte) string {
	if len(b) > 48 {
		return fmt.Sprintf("%q…(%d bytes)", b[:48], len(b))
	}
	return fmt.Sprintf("%q", b)
}

// heldValue: a value returned by Get, kept by the caller together with a copy
type heldValue struct {
	key, when string
	live      []byte
	clone     string
}

type seqDriver struct {
	c         core.Case
	prop      string
	r         *rand.Rand
	res       *core.Result
	dir       string
	cfg       originium.Config
	db        *originium.DB
	m         *kvModel
	keys      []string
	trace     []string
	reads     int
	held      []heldValue
	nopen     int
	scribbled int
	ntxn      int
	insitu    struct {
		sync.Mutex
		msgs []string
	}
}

func (d *seqDriver) logf(f string, a ...any) {
	d.trace = append(d.trace, fmt.Sprintf(f, a...))
	if len(d.trace) > 400 {
		d.trace = d.trace[200:]
	}
}

func (d *seqDriver) fail(sig, f string, a ...any) {
	d.res.Violate(d.prop, d.prop+"/"+sig, "%s\nconfig: %s; delay profile %s; keys %q\nlast steps: %s", fmt.Sprintf(f, a...), gen.CfgString(d.cfg), d.c.Str("delay", "none"), d.keys,
		strings.Join(d.trace[max(0, len(d.trace)-25):], " ; "))
}

func (d *seqDriver) open() bool {
	dir := d.dir
	if d.c.Int("pathspell", 0) == 1 {
		// the same directory, spelled differently by each incarnation
		switch d.nopen % 4 {
		case 1:
			dir = d.dir + "/"
		case 2:
			dir = filepath.Dir(d.dir) + "/./" + filepath.Base(d.dir)
		case 3:
			if wd, err := os.Getwd(); err == nil {
				if rel, err := filepath.Rel(wd, d.dir); err == nil {
					dir = rel
				}
			}
		}
		d.logf("Open(%q)", dir)
	}
	d.nopen++
	if p := eng.Safely(func() { d.db = eng.Open(dir, d.cfg) }); p != "" {
		d.fail("open-panic", "Open(%q) panicked: %s", dir, p)
		return false
	}
	return true
}

func (d *seqDriver) readKeys(ks []string, when string) bool {
	var bad string
	if len(ks) > 64 {
		// large universes: all keys written so far would be best, a seeded sample of 64 keeps cases cheap
		cp := append([]string{}, ks...)
		d.r.Shuffle(len(cp), func(i, j int) { cp[i], cp[j] = cp[j], cp[i] })
		ks = cp[:64]
	}
	p := eng.Safely(func() {
		err := d.db.View(func(tx *originium.Txn) error {
			for _, k := range ks {
				got, ok := tx.Get(k)
				d.reads++
				want, wok := d.m.vals[d.m.cur[k]], d.m.live[k]
				if ok != wok || (ok && string(got) != string(want)) {
					cls := d.m.classify(k, got, ok)
					if ok && !wok && cls == "lost" {
						cls = "alien"
					}
					wd := "not-found"
					if wok {
						wd = short(want)
					}
					gd := "not-found"
					if ok {
						gd = short(got)
					}
					bad = cls
					d.fail("read/"+cls, "%s: Get(%q) = %s, model (latest committed write) = %s; committed history of the key: %v", when, k, gd, wd, tailStr(d.m.hist[k], 8))
					return nil
				}
				// some returned values are kept: what Get handed out must not change later
				if ok && len(got) > 0 && len(got) <= 4096 && d.reads%37 == 0 {
					if len(d.held) >= 48 {
						d.held = d.held[1:]
					}
					d.held = append(d.held, heldValue{key: k, when: when, live: got, clone: string(got)})
				}
			}
			return nil
		})
		if err != nil {
			d.fail("view-error", "View returned %v", err)
			bad = "view-error"
		}
	})
	if p != "" {
		d.fail("read-panic", "Get panicked: %s", p)
		return false
	}
	return bad == ""
}

func tailStr(s []string, n int) []string {
	if len(s) > n {
		return append([]string{"…"}, s[len(s)-n:]...)
	}
	return s
}

func (d *seqDriver) commit(ws []seqWrite) bool {
	var err error
	// the engine gets buffers of its own; once Update has returned they belong to the caller again,
	// who reuses them (half of the time): what was committed must not change with them
	bufs := make([][]byte, len(ws))
	for i, w := range ws {
		if w.Tag != "" {
			bufs[i] = append(make([]byte, 0, len(w.Val)+8), w.Val...)
		}
	}
	defer func() {
		if d.r.Intn(2) == 0 {
			for _, b := range bufs {
				b = b[:cap(b)]
				for j := range b {
					b[j] = 0xAA
				}
			}
			d.scribbled++
		}
	}()
	p := eng.Safely(func() {
		err = d.db.Update(func(tx *originium.Txn) error {
			for i, w := range ws {
				var e error
				if w.Tag == "" {
					e = tx.Delete(w.Key)
				} else {
					e = tx.Set(w.Key, bufs[i])
				}
				if e != nil {
					return e
				}
			}
			return nil
		})
	})
	if p != "" {
		d.fail("commit-panic", "Update panicked: %s", p)
		return false
	}
	if err != nil {
		d.fail("commit-error", "Update of a single client returned %v", err)
		return false
	}
	d.m.apply(ws)
	d.ntxn++
	return true
}

func (d *seqDriver) genWrites(window []string, big bool) []seqWrite {
	n := 1 + d.r.Intn(4)
	seen := map[string]bool{}
	var ws []seqWrite
	for i := 0; i < n; i++ {
		k := window[d.r.Intn(len(window))]
		if seen[k] {
			continue
		}
		seen[k] = true
		if d.r.Intn(5) == 0 {
			ws = append(ws, seqWrite{Key: k})
			continue
		}
		tag := fmt.Sprintf("t%d.%d", d.ntxn, i)
		ws = append(ws, seqWrite{Key: k, Tag: tag, Val: gen.Value(d.r, tag, big && d.r.Intn(12) == 0)})
	}
	return ws
}

func descWrites(ws []seqWrite) string {
	var s []string
	for _, w := range ws {
		if w.Tag == "" {
			s = append(s, fmt.Sprintf("del %q", w.Key))
		} else {
			s = append(s, fmt.Sprintf("set %q=%s(%dB)", w.Key, w.Tag, len(w.Val)))
		}
	}
	return strings.Join(s, ",")
}

// runSeq executes one sequential program. reopen enables the C02 Close/Open steps.
func runSeq(c core.Case, prop string, reopen bool) core.Result {
	var res core.Result
	r := rand.New(rand.NewSource(c.Seed))
	d := &seqDriver{c: c, prop: prop, r: r, res: &res, m: newKVModel()}
	d.dir = filepath.Join(core.WorkerScratch(), c.ID)
	if c.Int("pathspell", 0) == 1 {
		// a directory name with characters that mean something to globbing, formatting or the
		// engine's own file names
		d.dir += []string{" sp ace", "[1]", "*star", "?q", "@7", ".db", ".log", ".tmp", "%41%s", "-ünï", "{a,b}", "\\bs"}[int(c.Seed%12+12)%12]
	}
	os.RemoveAll(d.dir)
	defer os.RemoveAll(d.dir)
	drawCfg := gen.Config
	if c.Int("wide", 0) == 1 {
		drawCfg = gen.ConfigWide
	}
	d.cfg = drawCfg(r)
	if l0 := int(c.Int("l0", -1)); l0 >= 0 {
		// wide cases walk through the L0 widths; a wide L0 needs many flushes to fill
		d.cfg.L0TargetNum = l0
		if l0 >= 8 {
			d.cfg.MemtableByteThreshold = []int{1, 64, 300, 1000}[r.Intn(4)]
		}
	}
	if c.Int("deep", 0) == 1 {
		// one table per level: with moving key windows the tree grows a level per flush and reaches
		// two-digit level numbers within a case
		d.cfg.L0TargetNum, d.cfg.LevelRatio = 1, 1
		d.cfg.MemtableByteThreshold = []int{1, 64, 300}[r.Intn(3)]
	}
	if reopen && c.Str("delay", "") == "slow-flusher" {
		// Close with several memtables still waiting IN the flush queue needs room in the queue
		d.cfg.ImmutableBuffer = []int{2, 4, 8}[r.Intn(3)]
		d.cfg.MemtableByteThreshold = []int{1, 64, 300}[r.Intn(3)]
	}
	profile := c.Str("keys", "hostile")
	nkeys := 3 + r.Intn(10)
	ntx := int(c.Int("txns", 100))
	windowed := profile == "windowed"
	if windowed {
		nkeys = 4 * (ntx/5 + 2)
	}
	d.keys = gen.Keys(r, profile, nkeys)
	big := c.Int("big", 0) == 1
	drain := c.Str("drain", "random")
	delay := c.Str("delay", "none")
	eng.H.SetProfile(delay, c.Seed)
	defer eng.H.SetProfile("none", 0)
	eng.H.OnCompaction = func(level int, inputs [][]types.Entry, output []types.Entry, low uint64) {
		if sig, detail := judgeCompaction(inputs, output, low); sig != "" {
			d.insitu.Lock()
			d.insitu.msgs = append(d.insitu.msgs, fmt.Sprintf("%s|L%d compaction (watermark %d): %s", sig, level, low, detail))
			d.insitu.Unlock()
		}
	}
	defer func() { eng.H.OnCompaction = nil }()
	before := eng.H.Snapshot()
	if tb := int(c.Int("tsbase", 0)); tb > 0 {
		// a store that has already seen very many commits
		eng.PlantTimestamp(d.dir, d.cfg, eng.TsBases[(tb-1)%len(eng.TsBases)])
		res.AddObs("cases_on_a_store_with_a_high_timestamp", 1)
	}
	if !d.open() {
		return res
	}
	reopens, reopensDeep, maxLevels := 0, 0, 0
	doReopen := func(why string) bool {
		// geometry of the directory at close time
		lens := d.db.VerifLevels().LevelLens()
		nonEmpty := 0
		for _, n := range lens {
			if n > 0 {
				nonEmpty++
			}
		}
		pending := d.db.VerifImmutables()
		d.logf("Close[%s levels=%v pending-flushes=%d]", why, lens, pending)
		if p := eng.Safely(func() { d.db.Close() }); p != "" {
			d.fail("close-panic", "Close panicked: %s", p)
			return false
		}
		// every parameter but the level geometry may change between incarnations
		nc := drawCfg(r)
		nc.L0TargetNum, nc.LevelRatio = d.cfg.L0TargetNum, d.cfg.LevelRatio
		if d.c.Str("delay", "") == "slow-flusher" {
			nc.ImmutableBuffer, nc.MemtableByteThreshold = d.cfg.ImmutableBuffer, d.cfg.MemtableByteThreshold
		}
		if r.Intn(3) == 0 {
			nc = d.cfg
		}
		d.cfg = nc
		d.logf("Open[%s]", gen.CfgString(nc))
		if !d.open() {
			return false
		}
		reopens++
		if nonEmpty >= 2 {
			reopensDeep++
		}
		if pending > 0 {
			res.AddObs("reopen_with_pending_flushes", 1)
		}
		if !d.readKeys(d.keys, "read-all after reopen #"+fmt.Sprint(reopens)) {
			return false
		}
		// the store stays writable and new commits supersede everything stored
		if r.Intn(2) == 0 {
			var ws []seqWrite
			for i, k := range d.keys {
				if windowed && i > 12 {
					break
				}
				tag := fmt.Sprintf("r%d.%d", reopens, i)
				ws = append(ws, seqWrite{Key: k, Tag: tag, Val: []byte(tag)})
				if len(ws) == 4 {
					d.logf("commit{%s}", descWrites(ws))
					if !d.commit(ws) {
						return false
					}
					ws = nil
				}
			}
			if len(ws) > 0 {
				d.logf("commit{%s}", descWrites(ws))
				if !d.commit(ws) {
					return false
				}
			}
			if !d.readKeys(d.keys, "read-all after overwriting every key following reopen #"+fmt.Sprint(reopens)) {
				return false
			}
		}
		return true
	}
	reopenEvery := 0
	if reopen {
		reopenEvery = 8 + r.Intn(30)
		if r.Intn(4) == 0 {
			// directly after Open
			if !doReopen("directly after Open") {
				return finishSeq(d, &res, before, reopens, reopensDeep, maxLevels)
			}
		}
	}
	for i := 0; i < ntx && res.Verdict == ""; i++ {
		window := d.keys
		if windowed {
			// disjoint windows that move on: tables get disjoint key ranges and deeper levels fill up
			lo := (i / 5) * 4
			if lo+4 > len(d.keys) {
				lo = len(d.keys) - 4
			}
			window = d.keys[lo : lo+4]
			if r.Intn(6) == 0 {
				window = d.keys[:lo+4] // now and then an old key again
			}
		}
		ws := d.genWrites(window, big)
		rot0 := eng.H.Count("rotate")
		d.logf("commit{%s}", descWrites(ws))
		if !d.commit(ws) {
			break
		}
		rotated := eng.H.Count("rotate") > rot0
		// read back what was just written plus a random subset
		var ks []string
		for _, w := range ws {
			ks = append(ks, w.Key)
		}
		for j := 0; j < 3; j++ {
			ks = append(ks, window[r.Intn(len(window))])
		}
		if !d.readKeys(ks, fmt.Sprintf("after commit #%d", d.ntxn)) {
			break
		}
		switch drain {
		case "always":
			d.db.VerifDrain()
		case "random":
			if r.Intn(5) == 0 {
				d.db.VerifDrain()
				d.logf("drain")
			}
		}
		if i%20 == 19 {
			if !d.readKeys(d.keys, fmt.Sprintf("read-all after commit #%d", d.ntxn)) {
				break
			}
		}
		if reopen && res.Verdict == "" {
			switch {
			case reopens >= 14:
			case rotated && r.Intn(10) == 0:
				if !doReopen("right after a commit that rotated the memtable") {
					break
				}
				if r.Intn(3) == 0 && !doReopen("again, with an empty memtable") {
					break
				}
			case i%17 == 16 && reopens < 14:
				// a burst of commits without reads in between, then Close at once: several rotated
				// memtables are still queued (or being flushed) when Close starts
				okBurst := true
				for b := 0; b < 4+r.Intn(8) && okBurst; b++ {
					bw := d.genWrites(window, false)
					d.logf("commit{%s}", descWrites(bw))
					okBurst = d.commit(bw)
				}
				if okBurst {
					if n := d.db.VerifImmutables(); n >= 2 {
						res.AddObs("reopen_with_>=2_pending_flushes", 1)
					}
					doReopen("right after a burst of commits")
				}
			case d.db.VerifImmutables() >= 2 && r.Intn(2) == 0:
				// several rotated memtables still queued: Close has to flush all of them, oldest first
				if !doReopen("with two or more flushes queued") {
					break
				}
			case d.db.VerifImmutables() > 0 && r.Intn(8) == 0:
				if !doReopen("with a non-empty flush queue") {
					break
				}
			case i%reopenEvery == reopenEvery-1:
				if !doReopen("periodic") {
					break
				}
			}
		}
	}
	if res.Verdict == "" {
		if d.readKeys(d.keys, "final read-all before drain") {
			d.db.VerifDrain()
			d.readKeys(d.keys, "final read-all after drain")
		}
	}
	if res.Verdict == "" && reopen {
		doReopen("final")
	}
	return finishSeq(d, &res, before, reopens, reopensDeep, maxLevels)
}

func finishSeq(d *seqDriver, res *core.Result, before map[string]int64, reopens, reopensDeep, maxLevels int) core.Result {
	if d.db != nil && res.Verdict == "" {
		lens := d.db.VerifLevels().LevelLens()
		for l, n := range lens {
			if n > 0 && l > maxLevels {
				maxLevels = l
			}
		}
		if m, n := d.db.VerifLevels().FilterMisses(); len(m) > 0 {
			d.fail("filter-denies-member", "a table's filter denies %d of %d of its own entries, e.g. %q", len(m), n, m[0])
		}
		if p := eng.Safely(func() { d.db.Close() }); p != "" {
			d.fail("close-panic", "Close panicked: %s", p)
		}
	}
	d.insitu.Lock()
	for _, m := range d.insitu.msgs {
		parts := strings.SplitN(m, "|", 2)
		d.fail("insitu-compaction/"+parts[0], "%s", parts[1])
		break
	}
	d.insitu.Unlock()
	obs := eng.Diff(before, eng.H.Snapshot())
	compactions := int64(0)
	for k, v := range obs {
		if strings.HasPrefix(k, "pt.") {
			continue
		}
		res.AddObs(k, v)
		if strings.HasPrefix(k, "compact.L") {
			compactions += v
		}
	}
	if res.Verdict == "" {
		for _, h := range d.held {
			if string(h.live) != h.clone {
				d.fail("returned-value-changed", "the value Get(%q) returned (%s) was %s and has become %s after later commits, reads, flushes and compactions", h.key, h.when, short([]byte(h.clone)), short(h.live))
				break
			}
		}
		res.AddObs("returned_values_rechecked_at_the_end", int64(len(d.held)))
	}
	res.AddObs("txns", int64(d.ntxn))
	res.AddObs("reads", int64(d.reads))
	res.AddObs("commits_whose_value_buffers_were_reused_afterwards", int64(d.scribbled))
	if d.c.Int("wide", 0) == 1 {
		res.AddObs("cases_wide_config_range", 1)
	}
	res.AddObs("reopens", int64(reopens))
	res.AddObs("reopens_over_>=2_levels", int64(reopensDeep))
	res.AddObs(fmt.Sprintf("cases_maxlevel_%d", maxLevels), 1)
	if d.prop == "C02" {
		res.NonTrivial = reopens >= 2 && reopensDeep >= 1
	} else {
		res.NonTrivial = obs["flush"] >= 1 && compactions >= 1 && obs["search.table"] >= 1
	}
	res.Hash = core.HashOf([]any{d.c.Seed, d.c.S, d.c.N})
	if d.c.Int("sample", 0) == 1 {
		res.Sample = map[string]any{"config": gen.CfgString(d.cfg), "keys": d.keys, "delay": d.c.Str("delay", "none"), "drain": d.c.Str("drain", "random"),
			"txns": d.ntxn, "reads": d.reads, "reopens": reopens, "first_steps": d.trace[:min(10, len(d.trace))],
			"observed": map[string]int64{"rotate": obs["rotate"], "flush": obs["flush"], "compactions": compactions, "search.table": obs["search.table"]}}
	}
	return *res
}

func genSeq(tier string, seed int64, prop string, nQuick, nThorough int) []core.Case {
	n := nQuick
	if tier == "thorough" {
		n = nThorough
	}
	r := rand.New(rand.NewSource(seed*86028121 + int64(len(prop))*31 + int64(prop[2])))
	var cs []core.Case
	for i := 0; i < n; i++ {
		c := core.Case{ID: fmt.Sprintf("%s-%05d", strings.ToLower(prop), i), Kind: "seq", Seed: r.Int63(),
			S: map[string]string{
				"keys":  []string{"hostile", "prefix", "windowed", "windowed", "long", "binary", "plain", "prefix"}[r.Intn(8)],
				"drain": []string{"always", "never", "random"}[r.Intn(3)],
				"delay": gen.DelayProfiles[r.Intn(len(gen.DelayProfiles))],
			},
			N: map[string]int64{"txns": int64(60 + r.Intn(341))}}
		if prop == "C02" && i%3 == 0 {
			c.S["delay"] = "slow-flusher" // reopen with flushes pending needs a lagging flusher
			c.S["drain"] = "never"
		}
		if i%12 == 5 {
			c.N["big"] = 1
			c.N["txns"] = int64(30 + r.Intn(60))
		}
		if i < 2 {
			c.N["sample"] = 1
		}
		if prop == "C02" && i%4 == 2 {
			c.N["pathspell"] = 1
		}
		if prop == "C02" && i%8 == 5 {
			c.N["deep"] = 1
			c.S["keys"] = "windowed"
			c.S["drain"] = "always"
			c.S["delay"] = "none"
		}
		if i%8 == 3 {
			c.N["tsbase"] = int64(1 + (i/8)%5)
		}
		if i%8 == 7 {
			c.N["l0"] = []int64{8, 0, 12, 2}[(i/8)%4]
			c.N["wide"] = 1 // configuration drawn from the wide range (zero values = defaults, large geometry)
			if c.N["big"] == 0 {
				c.N["txns"] = int64(200 + r.Intn(400))
			}
		}
		cs = append(cs, c)
	}
	return cs
}

func init() {
	core.Register(&core.Check{
		Prop: "C01", Level: "exploration",
		Rule:      "case = one single-client program of 60-400 transactions (1-4 Set/Delete each; hostile, windowed, long, binary keys; unique values of 0..5000 bytes, 64KiB..1MiB in every twelfth case) against a database with tiny random thresholds (memtable 1..4096 B, block 1..4096 B, L0 target and ratio 1..3, flush queue 0..4), drain policy always/never/random, delay profile none/jitter/slow-flusher/slow-commit/slow-rotate at the schedule points; every eighth case draws its configuration from the wide range instead (zero values = the engine's defaults, memtable and block thresholds up to 64 KiB, block above memtable threshold, L0 target up to 12, ratio up to 10, flush queue up to 16, skiplist height up to 32); after every commit the written keys and 3 others are read, every 20 commits and at the end (before and after a drain) all keys; oracle = map updated at each acknowledged commit, mismatches classified lost/stale/resurrected/alien/corrupt; every real compaction is also judged in situ by the C09 oracle; non-trivial = >=1 flush, >=1 compaction and >=1 read answered by a table; distinct by case parameters",
		Gen:       func(tier string, seed int64) []core.Case { return genSeq(tier, seed, "C01", 96, 800) },
		Run:       func(c core.Case) core.Result { return runSeq(c, "C01", false) },
		BatchSize: 4, GoMaxProcs: 2, Parallel: 8,
		MinNonTrivial: map[string]int{"quick": 40, "thorough": 400},
		Assumptions:   []string{"single client: the commit order is the program order", "background flush/compaction timing is steered (drain policy, injected delays), not enumerated", "nil and empty values are the same value"},
	})
	core.Register(&core.Check{
		Prop: "C02", Level: "exploration",
		Rule:      "case = a C01 program with Close/Open cycles: periodically, right after a commit that rotated the memtable (then possibly once more with an empty memtable), with a non-empty flush queue, directly after Open, and at the end; every parameter except L0TargetNum/LevelRatio is re-drawn per incarnation; every eighth case builds a deep tree (one table per level, moving key windows: two-digit level numbers) before its reopens; every fourth case uses a directory name with unusual characters ([1], *, ?, @, %, spaces, .db/.log/.tmp endings) and spells the path differently at each Open (trailing slash, /./, relative path); after each reopen all keys are read against the model, then (half of the time) every key is overwritten and read again; non-trivial = >=2 reopens of which >=1 over a directory with tables on >=2 levels; distinct by case parameters",
		Gen:       func(tier string, seed int64) []core.Case { return genSeq(tier, seed, "C02", 64, 500) },
		Run:       func(c core.Case) core.Result { return runSeq(c, "C02", true) },
		BatchSize: 4, GoMaxProcs: 2, Parallel: 8,
		MinNonTrivial: map[string]int{"quick": 15, "thorough": 150},
		Assumptions:   []string{"single client", "reopen in the same process (cross-process recovery is covered by the C03 runs)", "L0TargetNum and LevelRatio stay fixed for a directory"},
	})
}
