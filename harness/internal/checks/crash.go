package checks

import (
	"bufio"
	"encoding/hex"
	"encoding/json"
	"fmt"
	"math/rand"
	"os"
	"os/exec"
	"path/filepath"
	"sort"
	"strconv"
	"strings"
	"sync"

	"github.com/B1NARY-GR0UP/originium"

	"verifharness/internal/core"
	"verifharness/internal/eng"
	"verifharness/internal/gen"
)

// Crash enumeration (C03, C04, C14).
//
// A *program* is a seeded list of transactions plus a configuration. A workload child executes it
// and is killed (os.Exit inside the file-system hook, no deferred code runs, nothing is flushed)
// immediately before its N-th mutating file-system operation. A recovery child then opens the
// directory in a fresh process, reads every key, commits to every key, closes, opens and reads
// again. The judge compares with the acknowledgement log the workload child wrote outside the
// database directory.

type crashTxn struct {
	Writer int               `json:"w"`
	Idx    int               `json:"i"`
	Writes map[string]string `json:"writes"` // "" = delete
}

type crashProgram struct {
	Seed    int64
	Cfg     originium.Config
	Keys    []string
	Writers int
	Txns    [][]crashTxn // per writer
	Drained bool
	// SlowFlusher delays the flush goroutine at its schedule points (free-running programs only)
	SlowFlusher bool
	// RestartEvery > 0: the workload closes and reopens the database after every so many
	// transactions (clean restarts inside the run: crash points fall into Close and into the
	// recovery of a directory with history)
	RestartEvery int
	// TsBase > 0: the directory starts with a history (one planted table at that version)
	TsBase uint64
}

const delMark = "\x00<del>"

// keys and values may hold arbitrary bytes: they travel between processes hex-encoded
func hexMap(m map[string]string) map[string]string {
	out := make(map[string]string, len(m))
	for k, v := range m {
		out[hex.EncodeToString([]byte(k))] = hex.EncodeToString([]byte(v))
	}
	return out
}

func unhexMap(m map[string]string) map[string]string {
	out := make(map[string]string, len(m))
	for k, v := range m {
		kb, _ := hex.DecodeString(k)
		vb, _ := hex.DecodeString(v)
		out[string(kb)] = string(vb)
	}
	return out
}

// genProgram is deterministic in (seed, flavour).
func genProgram(seed int64, flavour string, drained bool, writers int, ntx int) crashProgram {
	r := rand.New(rand.NewSource(seed))
	p := crashProgram{Seed: seed, Drained: drained, Writers: writers}
	p.Cfg = originium.Config{SkipListMaxLevel: 4, SkipListP: 0.5,
		MemtableByteThreshold: []int{120, 250, 400, 700}[r.Intn(4)], ImmutableBuffer: []int{0, 1, 2, 4}[r.Intn(4)],
		DataBlockByteThreshold: []int{1, 64, 200}[r.Intn(3)], L0TargetNum: 1 + r.Intn(2), LevelRatio: 1 + r.Intn(2)}
	nk := 6 + r.Intn(6)
	profile := []string{"hostile", "hostile", "windowed"}[r.Intn(3)]
	if flavour == "deep" {
		// small L0 target and ratio, moving key windows: multi-level compactions before the crash
		p.Cfg.L0TargetNum, p.Cfg.LevelRatio = 1, 1+r.Intn(2)
		p.Cfg.MemtableByteThreshold = 120
		profile = "windowed"
		nk = 24
	}
	if flavour == "restarts" {
		p.RestartEvery = 5 + r.Intn(6)
	}
	if flavour == "closepending" {
		// free-running, slow flusher, room in the queue: Close is called with several flushes pending
		p.SlowFlusher = true
		p.Drained = false
		p.Cfg.ImmutableBuffer = 2 + r.Intn(3)
		p.Cfg.MemtableByteThreshold = 120
	}
	p.Keys = gen.Keys(r, profile, nk*writers)
	minKeys, maxKeys := 1, 3
	if flavour == "multikey" {
		// 3-6 key transactions and a threshold that makes them straddle a rotation
		minKeys, maxKeys = 3, 6
		p.Cfg.MemtableByteThreshold = []int{60, 120, 250}[r.Intn(3)]
	}
	valPad := func() int { return r.Intn(30) }
	if flavour == "bigtxn" {
		// multi-key transactions whose wal batch is several KiB (larger than any 4 KiB I/O buffer)
		minKeys, maxKeys = 3, 6
		p.Cfg.MemtableByteThreshold = []int{4000, 12000, 30000}[r.Intn(3)]
		p.Cfg.DataBlockByteThreshold = []int{200, 4096}[r.Intn(2)]
		valPad = func() int {
			if r.Intn(4) == 0 {
				return 4000 + r.Intn(5000) // a single value larger than a 4 KiB I/O buffer
			}
			return 800 + r.Intn(2400)
		}
	}
	if flavour == "manykeys" {
		// transactions with hundreds of keys (small values): one wal batch with hundreds of records
		minKeys, maxKeys = 260, 330
		nk = 400
		profile = "plain"
		p.Cfg.MemtableByteThreshold = []int{20000, 60000}[r.Intn(2)]
		p.Cfg.DataBlockByteThreshold = 4096
		p.Keys = gen.Keys(r, profile, nk*writers)
	}
	hugeLen := 0
	if flavour == "hugeval" {
		// one transaction of 4-7 keys carries ONE very large value (just over 1 MiB) and the next one a
		// value just over 64 KiB (both legal below the default 4 MiB memtable threshold): a wal record longer than any 16-bit
		// length, read buffer or "sanity" limit of the recovery path. Only one, because every crash
		// point ships the recovered state between processes.
		minKeys, maxKeys = 4, 7
		p.Cfg.MemtableByteThreshold = []int{30000, 4 << 20}[r.Intn(2)]
		p.Cfg.DataBlockByteThreshold = 4096
		hugeLen = 1<<20 + r.Intn(4096)
	}
	p.Txns = make([][]crashTxn, writers)
	for w := 0; w < writers; w++ {
		own := p.Keys[w*nk : (w+1)*nk] // disjoint key ownership: the per-key commit order is known
		for i := 0; i < ntx; i++ {
			t := crashTxn{Writer: w, Idx: i, Writes: map[string]string{}}
			n := minKeys + r.Intn(maxKeys-minKeys+1)
			window := own
			if flavour == "deep" {
				lo := (i / 4) * 3 % (nk - 3)
				if i > 8 && r.Intn(3) == 0 {
					// revisit an old window: deletes and overwrites of keys whose older versions
					// have already sunk to the deepest levels
					lo = r.Intn(lo+1) / 3 * 3
				}
				window = own[lo : lo+3]
			}
			var perm []int
			if n >= 100 {
				perm = r.Perm(len(window)) // hundreds of DISTINCT keys
			}
			for j := 0; j < n; j++ {
				k := window[r.Intn(len(window))]
				if perm != nil {
					k = window[perm[j%len(perm)]]
				}
				if r.Intn(5) == 0 {
					t.Writes[k] = delMark
				} else {
					t.Writes[k] = fmt.Sprintf("w%d.t%d.%d-%s", w, i, j, strings.Repeat("p", valPad()))
				}
			}
			if hugeLen > 0 && w == 0 && (i == 1 || i == 2) {
				k := window[r.Intn(len(window))]
				n := hugeLen
				if i == 2 {
					n = 65536 + r.Intn(512)
				}
				t.Writes[k] = fmt.Sprintf("w%d.t%d.huge-%s", w, i, strings.Repeat("H", n))
			}
			p.Txns[w] = append(p.Txns[w], t)
		}
	}
	return p
}

func programFromCase(c core.Case) crashProgram {
	p := genProgram(c.Int("pseed", 1), c.Str("flavour", "plain"), c.Int("drained", 1) == 1, int(c.Int("writers", 1)), int(c.Int("ntx", 40)))
	if tb := int(c.Int("tsbase", 0)); tb > 0 {
		p.TsBase = eng.TsBases[(tb-1)%len(eng.TsBases)]
	}
	return p
}

// ------------------------------------------------------------------------------------------------
// child side: kill handler

type crashPoint struct {
	N        int                 `json:"n"`
	Op       string              `json:"op"`
	File     string              `json:"file"`
	Phase    string              `json:"phase"`
	Unsynced map[string][2]int64 `json:"unsynced,omitempty"` // file -> [synced length, size]
}

var kill struct {
	mu     sync.Mutex
	count  int
	at     int
	synced map[string]int64
	side   string
	phase  string
}

// installKill arms the handler. dir is the database directory: files that exist in it when the
// process starts count as synced up to the length given in <side>/synced0.json (written by the
// orchestrator from the previous crash point), or up to their whole size if it does not list them.
func installKill(dir, side string, at int, phase string) {
	kill.at, kill.side, kill.phase = at, side, phase
	kill.synced = map[string]int64{}
	base := map[string]int64{}
	if b, err := os.ReadFile(filepath.Join(side, "synced0.json")); err == nil {
		json.Unmarshal(b, &base)
	}
	if ents, err := os.ReadDir(dir); err == nil {
		for _, e := range ents {
			if fi, err := e.Info(); err == nil && !fi.IsDir() {
				if s, ok := base[e.Name()]; ok {
					kill.synced[filepath.Join(dir, e.Name())] = s
				} else {
					kill.synced[filepath.Join(dir, e.Name())] = fi.Size()
				}
			}
		}
	}
	eng.H.FS = func(op, path string) {
		kill.mu.Lock()
		kill.count++
		if kill.at > 0 && kill.count == kill.at {
			target := path
			if i := strings.IndexByte(path, 0); i >= 0 {
				target = path[:i]
			}
			cp := crashPoint{N: kill.count, Op: op, File: filepath.Base(target), Phase: kill.phase, Unsynced: map[string][2]int64{}}
			dir := filepath.Dir(target)
			ents, _ := os.ReadDir(dir)
			for _, e := range ents {
				fi, err := e.Info()
				if err != nil || fi.IsDir() {
					continue
				}
				p := filepath.Join(dir, e.Name())
				s, ok := kill.synced[p]
				if !ok && strings.HasSuffix(p, ".tmp") {
					s = kill.synced[strings.TrimSuffix(p, ".tmp")]
				}
				if fi.Size() > s {
					cp.Unsynced[e.Name()] = [2]int64{s, fi.Size()}
				}
			}
			b, _ := json.Marshal(cp)
			os.WriteFile(filepath.Join(kill.side, "crash.json"), b, 0644)
			os.Exit(77) // the mutex stays locked: every other goroutine stops at its next hook
		}
		if op == "rename" {
			if i := strings.IndexByte(path, 0); i >= 0 {
				from, to := path[:i], path[i+1:]
				if s, ok := kill.synced[from]; ok {
					kill.synced[to] = s
					delete(kill.synced, from)
				}
			}
		}
		if op == "remove" {
			delete(kill.synced, path)
		}
		kill.mu.Unlock()
	}
	eng.H.FSDone = func(op, path string) {
		if op != "sync" {
			return
		}
		kill.mu.Lock()
		if fi, err := os.Stat(path); err == nil {
			kill.synced[path] = fi.Size()
		}
		kill.mu.Unlock()
	}
}

func killTotal() int {
	kill.mu.Lock()
	defer kill.mu.Unlock()
	return kill.count
}

func readProgramFile(f string) crashProgram {
	var c core.Case
	b, err := os.ReadFile(f)
	if err != nil {
		panic(err)
	}
	if err := json.Unmarshal(b, &c); err != nil {
		panic(err)
	}
	return programFromCase(c)
}

// crash-run <dir> <side> <casefile> <killAt>
func crashRunMain(args []string) int {
	dir, side := args[0], args[1]
	p := readProgramFile(args[2])
	at, _ := strconv.Atoi(args[3])
	if p.TsBase > 0 {
		if es, _ := os.ReadDir(dir); len(es) == 0 {
			eng.PlantTimestamp(dir, p.Cfg, p.TsBase) // before the kill counter starts
		}
	}
	installKill(dir, side, at, "workload")
	if p.SlowFlusher {
		// the flusher lags behind: rotated memtables queue up and Close finds flushes pending
		eng.H.SetProfile("slow-flusher", p.Seed)
	}
	ack, err := os.OpenFile(filepath.Join(side, "ack.log"), os.O_CREATE|os.O_WRONLY|os.O_APPEND, 0644)
	if err != nil {
		panic(err)
	}
	var amu sync.Mutex
	logLine := func(s string) {
		amu.Lock()
		ack.WriteString(s) // one write(2) per line, no user-space buffer
		amu.Unlock()
	}
	db := eng.Open(dir, p.Cfg)
	var wg sync.WaitGroup
	for w := 0; w < p.Writers; w++ {
		wg.Add(1)
		go func(w int) {
			defer wg.Done()
			for ti, t := range p.Txns[w] {
				if p.RestartEvery > 0 && p.Writers == 1 && ti > 0 && ti%p.RestartEvery == 0 {
					kill.mu.Lock()
					kill.phase = "close"
					kill.mu.Unlock()
					db.Close()
					kill.mu.Lock()
					kill.phase = "reopen"
					kill.mu.Unlock()
					db = eng.Open(dir, p.Cfg)
					kill.mu.Lock()
					kill.phase = "workload"
					kill.mu.Unlock()
				}
				ht := t
				ht.Writes = hexMap(t.Writes)
				b, _ := json.Marshal(ht)
				logLine(fmt.Sprintf("CALL %s\n", b))
				err := db.Update(func(tx *originium.Txn) error {
					for k, v := range t.Writes {
						var e error
						if v == delMark {
							e = tx.Delete(k)
						} else {
							e = tx.Set(k, []byte(v))
						}
						if e != nil {
							return e
						}
					}
					return nil
				})
				if err != nil {
					panic(fmt.Sprintf("Update returned %v", err))
				}
				logLine(fmt.Sprintf("ACK %d %d\n", t.Writer, t.Idx))
				if p.Drained {
					db.VerifDrain()
				}
			}
		}(w)
	}
	wg.Wait()
	kill.mu.Lock()
	kill.phase = "close"
	kill.mu.Unlock()
	db.Close()
	fmt.Println("TOTAL", killTotal())
	return 0
}

// crash-reopen <dir> <side> <casefile> <killAt>: Open only (a recovery that may be killed itself)
func crashReopenMain(args []string) int {
	dir, side := args[0], args[1]
	p := readProgramFile(args[2])
	at, _ := strconv.Atoi(args[3])
	installKill(dir, side, at, "recovery")
	eng.Open(dir, p.Cfg)
	fmt.Println("TOTAL", killTotal())
	os.Exit(0) // do not Close: the directory stays as recovery left it
	return 0
}

type verifyOut struct {
	State map[string]string `json:"state"`
	Post  map[string]string `json:"post"`
	Ops   int               `json:"ops"`
	Idle  bool              `json:"idle"` // no commit between recovery and the Close/Open that follows
	Died  bool              `json:"died"` // ... and no Close either: the recovered incarnation died idle
	// ReaderDiff: a read-only transaction begun right after recovery re-read every key after the
	// post-recovery commits; the first key whose answer changed (hex-free description), "" if none
	ReaderDiff string `json:"reader_diff"`
}

// postStride: the recovery child commits to every postStride-th key (every second key, fewer for
// programs with hundreds of keys); the other keys must keep what they read right after recovery.
func postStride(p crashProgram) int {
	if len(p.Keys) <= 100 {
		return 2
	}
	return len(p.Keys) / 40
}

// crash-verify <dir> <side> <casefile> [plain|crashafter|second]
//
//	plain       Open, read, commit to every second key, Close, Open, read, Close
//	idle        Open, read, Close, Open, read, Close (nothing is committed by the recovered incarnation)
//	idlecrash   Open, read, then die WITHOUT Close and without having committed anything ("second" follows)
//	crashafter  Open, read, commit to every second key, then die WITHOUT Close (a second, plain crash
//	            right after acknowledged post-recovery commits); writes the first half of the result
//	second      Open, read (the "post" half of the result), Close
func crashVerifyMain(args []string) int {
	dir, side := args[0], args[1]
	p := readProgramFile(args[2])
	mode := "plain"
	if len(args) > 3 {
		mode = args[3]
	}
	installKill(dir, side, 0, "verify")
	db := eng.Open(dir, p.Cfg)
	out := verifyOut{State: map[string]string{}, Post: map[string]string{}}
	if mode == "second" {
		if b, err := os.ReadFile(filepath.Join(side, "verify1.json")); err == nil {
			json.Unmarshal(b, &out)
			out.State = unhexMap(out.State)
			out.Post = map[string]string{}
		}
		db.View(func(tx *originium.Txn) error {
			for _, k := range p.Keys {
				if v, ok := tx.Get(k); ok {
					out.Post[k] = string(v)
				}
			}
			return nil
		})
		db.Close()
		out.State, out.Post = hexMap(out.State), hexMap(out.Post)
		b, _ := json.Marshal(out)
		os.WriteFile(filepath.Join(side, "verify.json"), b, 0644)
		return 0
	}
	out.Ops = killTotal()
	db.View(func(tx *originium.Txn) error {
		for _, k := range p.Keys {
			if v, ok := tx.Get(k); ok {
				out.State[k] = string(v)
			}
		}
		return nil
	})
	// the recovered store accepts and retains further commits
	// (every second key only: the others must keep the value they had right after recovery)
	out.Idle = mode == "idle" || mode == "idlecrash"
	out.Died = mode == "idlecrash"
	// a reader that lives across the first commits of the recovered incarnation
	reader := db.Begin(false)
	for i, k := range p.Keys {
		if i%postStride(p) != 0 || out.Idle {
			continue
		}
		kk := k
		if err := db.Update(func(tx *originium.Txn) error { return tx.Set(kk, []byte("post-"+kk)) }); err != nil {
			panic(fmt.Sprintf("post-recovery Update returned %v", err))
		}
	}
	if !out.Idle {
		for _, k := range p.Keys {
			v, ok := reader.Get(k)
			want, wok := out.State[k]
			if ok != wok || (ok && string(v) != want) {
				out.ReaderDiff = fmt.Sprintf("key %q read (%q, found=%v) right after recovery; a read-only transaction begun then reads (%q, found=%v) after the incarnation's first commits (to other keys or newer versions)", k, want, wok, v, ok)
				break
			}
		}
	}
	reader.Discard()
	if mode == "crashafter" || mode == "idlecrash" {
		out.State = hexMap(out.State)
		b, _ := json.Marshal(out)
		os.WriteFile(filepath.Join(side, "verify1.json"), b, 0644)
		os.Exit(0) // no Close: the acknowledged post-recovery commits live in the wal only
	}
	db.Close()
	db = eng.Open(dir, p.Cfg)
	db.View(func(tx *originium.Txn) error {
		for _, k := range p.Keys {
			if v, ok := tx.Get(k); ok {
				out.Post[k] = string(v)
			}
		}
		return nil
	})
	db.Close()
	out.State, out.Post = hexMap(out.State), hexMap(out.Post)
	b, _ := json.Marshal(out)
	os.WriteFile(filepath.Join(side, "verify.json"), b, 0644)
	return 0
}

func init() {
	core.Sub["crash-run"] = crashRunMain
	core.Sub["crash-reopen"] = crashReopenMain
	core.Sub["crash-verify"] = crashVerifyMain
}

// ------------------------------------------------------------------------------------------------
// judge

type ackState struct {
	expected map[string]string // key -> value; absent = not found
	inflight []crashTxn        // at most one per writer
	acked    int
	written  map[string]map[string]bool // key -> every value a begun transaction wrote to it
	lastTxn  map[string]string          // key -> "writer.index" of the acknowledged transaction that wrote it last
}

func readAck(side string, p crashProgram) ackState {
	st := ackState{expected: map[string]string{}, written: map[string]map[string]bool{}, lastTxn: map[string]string{}}
	f, err := os.Open(filepath.Join(side, "ack.log"))
	if err != nil {
		return st
	}
	defer f.Close()
	pending := map[int]*crashTxn{}
	sc := bufio.NewScanner(f)
	sc.Buffer(make([]byte, 1<<20), 1<<26)
	for sc.Scan() {
		line := sc.Text()
		switch {
		case strings.HasPrefix(line, "CALL "):
			var t crashTxn
			if json.Unmarshal([]byte(line[5:]), &t) != nil {
				continue // torn last line of the ack log itself: the call was not issued yet
			}
			t.Writes = unhexMap(t.Writes)
			pending[t.Writer] = &t
			for k, v := range t.Writes {
				if st.written[k] == nil {
					st.written[k] = map[string]bool{}
				}
				st.written[k][v] = true
			}
		case strings.HasPrefix(line, "ACK "):
			var w, i int
			if n, _ := fmt.Sscanf(line, "ACK %d %d", &w, &i); n != 2 {
				continue
			}
			if t := pending[w]; t != nil && t.Idx == i {
				for k, v := range t.Writes {
					if v == delMark {
						delete(st.expected, k)
					} else {
						st.expected[k] = v
					}
					st.lastTxn[k] = fmt.Sprintf("%d.%d", t.Writer, t.Idx)
				}
				st.acked++
				delete(pending, w)
			}
		}
	}
	for _, t := range pending {
		st.inflight = append(st.inflight, *t)
	}
	return st
}

type judgement struct {
	Prop, Sig, Detail string
}

// judgeRecovery applies the C03 rules (and the C04 atomicity rule if atomic is set).
func judgeRecovery(st ackState, v verifyOut, p crashProgram, atomic bool) []judgement {
	var out []judgement
	infl := map[string]*crashTxn{}
	for i := range st.inflight {
		for k := range st.inflight[i].Writes {
			infl[k] = &st.inflight[i]
		}
	}
	newSeen, oldSeen := map[int][]string{}, map[int][]string{}
	for _, k := range p.Keys {
		got, ok := v.State[k]
		want, wok := st.expected[k]
		if t := infl[k]; t != nil {
			iv := t.Writes[k]
			isNew := (iv == delMark && !ok) || (iv != delMark && ok && got == iv)
			isOld := ok == wok && got == want
			switch {
			case isNew && !isOld:
				newSeen[t.Writer] = append(newSeen[t.Writer], k)
			case isOld && !isNew:
				oldSeen[t.Writer] = append(oldSeen[t.Writer], k)
			case !isNew && !isOld:
				out = append(out, judgement{"C03", "inflight-key-neither-old-nor-new", fmt.Sprintf("key %q reads (%q, found=%v): neither its previous value (%q, found=%v) nor the value %q of the transaction that was committing", k, got, ok, want, wok, iv)})
			}
			continue
		}
		if ok != wok || got != want {
			kind := "acknowledged-write-lost"
			switch {
			case ok && !st.written[k][got]:
				kind = "alien-value"
			case ok && !wok:
				kind = "deleted-key-resurrected"
			case ok && wok:
				kind = "stale-value"
			}
			out = append(out, judgement{"C03", kind, fmt.Sprintf("key %q reads (%q, found=%v) after recovery, acknowledged state is (%q, found=%v) [%d commits acknowledged]", k, got, ok, want, wok, st.acked)})
		}
	}
	if atomic && st.lastTxn != nil {
		// acknowledged transactions: among the keys whose last acknowledged writer is T (and which are
		// not being rewritten by an in-flight transaction), either all read T's write or none does
		okKeys, badKeys := map[string][]string{}, map[string][]string{}
		for _, k := range p.Keys {
			t, has := st.lastTxn[k]
			if !has || infl[k] != nil {
				continue
			}
			got, ok := v.State[k]
			want, wok := st.expected[k]
			if ok == wok && got == want {
				okKeys[t] = append(okKeys[t], k)
			} else {
				badKeys[t] = append(badKeys[t], k)
			}
		}
		for t, bad := range badKeys {
			if good := okKeys[t]; len(good) > 0 {
				out = append(out, judgement{"C04", "acknowledged-transaction-partially-visible", fmt.Sprintf("acknowledged transaction %s: its writes to %q are visible, its writes to %q are not (they read something else)", t, good, bad)})
				break
			}
		}
	}
	if atomic {
		for w, ns := range newSeen {
			if os := oldSeen[w]; len(os) > 0 {
				out = append(out, judgement{"C04", "partial-transaction", fmt.Sprintf("the transaction of writer %d that was committing at the crash is applied partially: keys %q have its new values, keys %q still their old ones", w, ns, os)})
			}
		}
	}
	if v.ReaderDiff != "" {
		out = append(out, judgement{"C03", "recovered-value-lost-for-open-reader", v.ReaderDiff + " [the snapshot of an open transaction changed: also C05]"})
	}
	for i, k := range p.Keys {
		if i%postStride(p) == 0 && !v.Idle {
			if v.Post[k] != "post-"+k {
				out = append(out, judgement{"C03", "post-recovery-commit-not-retained", fmt.Sprintf("after recovery, a commit of %q=%q, Close and Open, the key reads %q", k, "post-"+k, v.Post[k])})
				break
			}
			continue
		}
		// keys not written after recovery keep what recovery produced
		a, aok := v.State[k]
		b, bok := v.Post[k]
		if a != b || aok != bok {
			if v.Idle && v.Died {
				out = append(out, judgement{"C03", "recovered-value-lost-after-idle-crash", fmt.Sprintf("key %q read (%q, found=%v) right after recovery but (%q, found=%v) after that incarnation died without committing anything and the directory was opened again", k, a, aok, b, bok)})
				break
			}
			if v.Idle {
				out = append(out, judgement{"C03", "recovered-value-lost-after-close", fmt.Sprintf("key %q read (%q, found=%v) right after recovery but (%q, found=%v) after Close and Open, with no commit in between", k, a, aok, b, bok)})
				break
			}
			out = append(out, judgement{"C03", "recovered-value-lost-after-further-commits", fmt.Sprintf("key %q read (%q, found=%v) right after recovery but (%q, found=%v) after commits to other keys, Close and Open", k, a, aok, b, bok)})
			break
		}
	}
	return out
}

// ------------------------------------------------------------------------------------------------
// orchestrator (runs inside a worker)

func selfExe() string {
	self, _ := os.Executable()
	return self
}

func child(env []string, args ...string) (int, string) {
	cmd := exec.Command(selfExe(), args...)
	cmd.Env = append(os.Environ(), env...)
	out, err := cmd.CombinedOutput()
	code := 0
	if err != nil {
		if ee, ok := err.(*exec.ExitError); ok {
			code = ee.ExitCode()
		} else {
			code = -1
		}
	}
	return code, string(out)
}

func copyDir(src, dst string) {
	os.MkdirAll(dst, 0755)
	ents, _ := os.ReadDir(src)
	for _, e := range ents {
		b, err := os.ReadFile(filepath.Join(src, e.Name()))
		if err == nil {
			os.WriteFile(filepath.Join(dst, e.Name()), b, 0644)
		}
	}
}

func fileClass(f string) string {
	switch {
	case strings.HasSuffix(f, ".log"):
		return "wal"
	case strings.HasSuffix(f, ".tmp"):
		return "tmp"
	case strings.HasSuffix(f, ".db"):
		if i := strings.Index(f, "-"); i > 0 {
			if f[:i] == "0" {
				return "L0"
			}
			return "L1+"
		}
	}
	return "other"
}

func totalOf(out string) int {
	for _, l := range strings.Split(out, "\n") {
		if strings.HasPrefix(l, "TOTAL ") {
			n, _ := strconv.Atoi(strings.TrimPrefix(l, "TOTAL "))
			return n
		}
	}
	return -1
}

func listDir(d string) string {
	ents, _ := os.ReadDir(d)
	var s []string
	for _, e := range ents {
		fi, _ := e.Info()
		if fi != nil {
			s = append(s, fmt.Sprintf("%s(%d)", e.Name(), fi.Size()))
		}
	}
	return strings.Join(s, " ")
}

type crashCaseCtx struct {
	c        core.Case
	p        crashProgram
	base     string
	caseFile string
	env      []string
	res      *core.Result
	focus    string
	classes  map[string]int64
	nverify  int
}

// verifyAndJudge runs the recovery child on dir and files the judgements.
func (cc *crashCaseCtx) verifyAndJudge(dir, side string, st ackState, atomic bool, where string, cp crashPoint) {
	os.Remove(filepath.Join(side, "verify.json"))
	os.Remove(filepath.Join(side, "verify1.json"))
	listing := listDir(dir)
	// every third recovery is followed by a second, plain crash right after its post-recovery commits
	cc.nverify++
	var code int
	var out string
	if cc.nverify%6 == 4 {
		code, out = child(cc.env, "crash-verify", dir, side, cc.caseFile, "idlecrash")
		if code == 0 {
			where += "; the recovered incarnation commits nothing and dies without Close, Open"
			cc.res.AddObs("recoveries_followed_by_idle_crash", 1)
			code, out = child(cc.env, "crash-verify", dir, side, cc.caseFile, "second")
		}
	} else if cc.nverify%3 == 0 {
		code, out = child(cc.env, "crash-verify", dir, side, cc.caseFile, "crashafter")
		if code == 0 {
			where += "; then commits to every second key and a second crash without Close"
			cc.res.AddObs("recoveries_followed_by_second_crash", 1)
			code, out = child(cc.env, "crash-verify", dir, side, cc.caseFile, "second")
		}
	} else if cc.nverify%3 == 1 {
		where += "; the recovered incarnation commits nothing, Close, Open"
		cc.res.AddObs("recoveries_followed_by_idle_close", 1)
		code, out = child(cc.env, "crash-verify", dir, side, cc.caseFile, "idle")
	} else {
		code, out = child(cc.env, "crash-verify", dir, side, cc.caseFile, "plain")
	}
	cls := fmt.Sprintf("%s:%s", cp.Op, fileClass(cp.File))
	ctx := fmt.Sprintf("\n%s\ncrash point: #%d before %s of %s (phase %s); directory at recovery: %s\nprogram: seed %d %s writers=%d drained=%v cfg %s",
		where, cp.N, cp.Op, cp.File, cp.Phase, listing, cc.p.Seed, cc.c.Str("flavour", "plain"), cc.p.Writers, cc.p.Drained, gen.CfgString(cc.p.Cfg))
	if code != 0 {
		pl, fr := core.FirstPanic(out)
		if pl == "" {
			pl = fmt.Sprintf("exit code %d", code)
		}
		prop := "C03"
		if cc.focus == "C14" {
			prop = "C14"
		}
		cc.res.Violate(prop, prop+"/open-failed/"+sigShort(fr), "recovery process failed: %s at %s%s\n%s", pl, fr, ctx, tailN(out, 1500))
		return
	}
	var v verifyOut
	b, err := os.ReadFile(filepath.Join(side, "verify.json"))
	if err != nil || json.Unmarshal(b, &v) != nil {
		cc.res.Verdict = "inconclusive"
		cc.res.Inconcl = "recovery child wrote no result"
		return
	}
	v.State, v.Post = unhexMap(v.State), unhexMap(v.Post)
	for _, j := range judgeRecovery(st, v, cc.p, atomic) {
		prop := j.Prop
		if cc.focus == "C14" && prop == "C03" {
			prop = "C14"
		}
		cc.res.Violate(prop, prop+"/"+j.Sig+"/"+cls, "%s%s", j.Detail, ctx)
	}
}

func sigShort(frame string) string {
	if i := strings.LastIndex(frame, "/"); i >= 0 {
		frame = frame[i+1:]
	}
	return frame
}

func tailN(s string, n int) string {
	if len(s) > n {
		return s[len(s)-n:]
	}
	return s
}

func cutsFor(synced, size int64, dense bool) []int64 {
	var cuts []int64
	if size-synced <= 64 || dense && size-synced <= 128 {
		for c := synced; c < size; c++ {
			cuts = append(cuts, c)
		}
		return cuts
	}
	set := map[int64]bool{synced: true, synced + 1: true, synced + 7: true, synced + 8: true, synced + 9: true, (synced + size) / 2: true, size - 9: true, size - 8: true, size - 1: true}
	for c := range set {
		if c >= synced && c < size {
			cuts = append(cuts, c)
		}
	}
	sort.Slice(cuts, func(i, j int) bool { return cuts[i] < cuts[j] })
	return cuts
}

func runCrashCase(c core.Case, focus string) core.Result {
	var res core.Result
	cc := &crashCaseCtx{c: c, p: programFromCase(c), res: &res, focus: focus, classes: map[string]int64{}}
	cc.base = filepath.Join(core.WorkerScratch(), c.ID)
	os.RemoveAll(cc.base)
	os.MkdirAll(cc.base, 0755)
	defer os.RemoveAll(cc.base)
	cc.caseFile = filepath.Join(cc.base, "case.json")
	cb, _ := json.Marshal(c)
	os.WriteFile(cc.caseFile, cb, 0644)
	gmp := "1"
	if !cc.p.Drained || cc.p.Writers > 1 {
		gmp = "2"
	}
	cc.env = []string{"GOGC=off", "GOMEMLIMIT=2GiB", "GOMAXPROCS=" + gmp, "GOTRACEBACK=single"}
	offset, stride := int(c.Int("offset", 0)), int(c.Int("stride", 1))
	maxPoints := int(c.Int("maxpoints", 1000))
	seqEvery := int(c.Int("seqevery", 0)) // two-crash sequences at every seqEvery-th crash point
	depth3 := c.Int("depth3", 0) == 1     // one three-crash sequence per two-crash sequence family
	images := c.Int("images", 0) == 1     // C14 torn-tail images
	dense := c.Int("dense", 0) == 1       // all cuts for gaps up to 400 bytes
	points, seqs, imgs, inflightPoints, multiInflight, cutBytes := 0, 0, 0, 0, 0, 0
	var sample []string
	for i := 0; i < maxPoints && len(res.Violations) < 8; i++ {
		n := offset + 1 + i*stride
		d, s := filepath.Join(cc.base, fmt.Sprintf("d%d", n)), filepath.Join(cc.base, fmt.Sprintf("s%d", n))
		os.MkdirAll(s, 0755)
		code, out := child(cc.env, "crash-run", d, s, cc.caseFile, strconv.Itoa(n))
		if code == 0 {
			// the program completed before its n-th operation: enumeration of this residue class is complete
			res.AddObs("program_fs_ops", int64(totalOf(out)))
			os.RemoveAll(d)
			os.RemoveAll(s)
			break
		}
		if code != 77 {
			pl, fr := core.FirstPanic(out)
			res.Violate(focus, focus+"/workload-died/"+sigShort(fr), "the workload process died without being killed (exit %d): %s at %s\nkill index %d; program seed %d cfg %s\n%s", code, pl, fr, n, cc.p.Seed, gen.CfgString(cc.p.Cfg), tailN(out, 1500))
			os.RemoveAll(d)
			os.RemoveAll(s)
			break
		}
		var cp crashPoint
		b, _ := os.ReadFile(filepath.Join(s, "crash.json"))
		json.Unmarshal(b, &cp)
		st := readAck(s, cc.p)
		points++
		cls := fmt.Sprintf("%s|%s:%s", cp.Phase, cp.Op, fileClass(cp.File))
		cc.classes[cls]++
		if len(st.inflight) > 0 {
			inflightPoints++
			for _, t := range st.inflight {
				if len(t.Writes) >= 2 {
					multiInflight++
					break
				}
			}
		}
		if len(sample) < 3 {
			sample = append(sample, fmt.Sprintf("kill #%d before %s %s (%s), %d acked, %d in flight, dir: %s", n, cp.Op, cp.File, cp.Phase, st.acked, len(st.inflight), listDir(d)))
		}
		needImage := (seqEvery > 0 && points%seqEvery == 0) || (images && len(cp.Unsynced) > 0)
		img := filepath.Join(cc.base, fmt.Sprintf("img%d", n))
		if needImage {
			copyDir(d, img)
		}
		// single crash
		cc.verifyAndJudge(d, s, st, focus != "C14", fmt.Sprintf("single crash at kill index %d", n), cp)
		os.RemoveAll(d)
		// crash sequences: kill the recovery itself at every operation, recover again
		if seqEvery > 0 && points%seqEvery == 0 && focus != "C14" {
			for m := 1; m < 400 && len(res.Violations) < 8; m++ {
				d2 := filepath.Join(cc.base, fmt.Sprintf("d%d-%d", n, m))
				copyDir(img, d2)
				code2, out2 := child(cc.env, "crash-reopen", d2, s, cc.caseFile, strconv.Itoa(m))
				if code2 != 77 && code2 != 0 {
					pl, fr := core.FirstPanic(out2)
					res.Violate("C03", "C03/open-failed/"+sigShort(fr), "first recovery (to be killed before its operation %d) failed by itself: %s at %s\nafter crash at kill index %d before %s of %s; dir %s\n%s", m, pl, fr, n, cp.Op, cp.File, listDir(img), tailN(out2, 1200))
					os.RemoveAll(d2)
					break
				}
				if code2 == 0 {
					res.AddObs("recovery_fs_ops", int64(totalOf(out2)))
					os.RemoveAll(d2)
					break
				}
				var cp2 crashPoint
				b2, _ := os.ReadFile(filepath.Join(s, "crash.json"))
				json.Unmarshal(b2, &cp2)
				seqs++
				cc.classes[fmt.Sprintf("%s|%s:%s", cp2.Phase, cp2.Op, fileClass(cp2.File))]++
				if depth3 && m%8 == 1 {
					// third crash inside the second recovery
					for m3 := 1; m3 < 400; m3 += 4 {
						d3 := filepath.Join(cc.base, fmt.Sprintf("d%d-%d-%d", n, m, m3))
						copyDir(d2, d3)
						code3, _ := child(cc.env, "crash-reopen", d3, s, cc.caseFile, strconv.Itoa(m3))
						if code3 != 77 {
							os.RemoveAll(d3)
							break
						}
						var cp3 crashPoint
						b3, _ := os.ReadFile(filepath.Join(s, "crash.json"))
						json.Unmarshal(b3, &cp3)
						seqs++
						res.AddObs("three_crash_sequences", 1)
						cc.verifyAndJudge(d3, s, st, true, fmt.Sprintf("crash at kill index %d, recovery killed before its operation %d, second recovery killed before its operation %d", n, m, m3), cp3)
						os.RemoveAll(d3)
					}
				}
				cc.verifyAndJudge(d2, s, st, true, fmt.Sprintf("crash at kill index %d (before %s of %s), then the recovery killed before its operation %d", n, cp.Op, cp.File, m), cp2)
				os.RemoveAll(d2)
			}
		}
		// C14: crash again inside the recovery, then additionally lose the unsynced tails of what the
		// recovery (and the first run) wrote
		if images && seqEvery > 0 && points%seqEvery == 0 {
			base := map[string]int64{}
			for f, rg := range cp.Unsynced {
				base[f] = rg[0]
			}
			bb, _ := json.Marshal(base)
			os.WriteFile(filepath.Join(s, "synced0.json"), bb, 0644)
			for m := 1; m < 400 && len(res.Violations) < 8; m++ {
				d2 := filepath.Join(cc.base, fmt.Sprintf("d%d-r%d", n, m))
				copyDir(img, d2)
				code2, out2 := child(cc.env, "crash-reopen", d2, s, cc.caseFile, strconv.Itoa(m))
				if code2 == 0 {
					os.RemoveAll(d2)
					break
				}
				if code2 != 77 {
					pl, fr := core.FirstPanic(out2)
					res.Violate("C14", "C14/open-failed/"+sigShort(fr), "recovery (to be killed before its operation %d) failed by itself: %s at %s\nafter crash at kill index %d; dir %s\n%s", m, pl, fr, n, listDir(img), tailN(out2, 1200))
					os.RemoveAll(d2)
					break
				}
				var cp2 crashPoint
				b2, _ := os.ReadFile(filepath.Join(s, "crash.json"))
				json.Unmarshal(b2, &cp2)
				seqs++
				cc.classes[fmt.Sprintf("%s|%s:%s", cp2.Phase, cp2.Op, fileClass(cp2.File))]++
				var files []string
				for f := range cp2.Unsynced {
					files = append(files, f)
				}
				sort.Strings(files)
				os.Remove(filepath.Join(s, "synced0.json")) // the verify child starts from what is on disk
				for _, f := range files {
					rg := cp2.Unsynced[f]
					cuts := cutsFor(rg[0], rg[1], false)
					if len(cuts) > 4 {
						cuts = []int64{cuts[0], cuts[1], cuts[len(cuts)/2], cuts[len(cuts)-1]}
					}
					for _, cut := range cuts {
						d3 := filepath.Join(cc.base, fmt.Sprintf("d%d-r%d-cut", n, m))
						os.RemoveAll(d3)
						copyDir(d2, d3)
						os.Truncate(filepath.Join(d3, f), cut)
						imgs++
						cutBytes += int(rg[1] - cut)
						res.AddObs("images_with_bytes_cut", 1)
						cc.classes["image-after-recovery-crash|"+fileClass(f)]++
						cc.verifyAndJudge(d3, s, st, false, fmt.Sprintf("crash at kill index %d, recovery killed before its operation %d (%s of %s), plus loss of the unsynced tail of %s: truncated to %d of [synced %d, size %d)", n, m, cp2.Op, cp2.File, f, cut, rg[0], rg[1]), cp2)
						os.RemoveAll(d3)
					}
				}
				os.WriteFile(filepath.Join(s, "synced0.json"), bb, 0644)
				os.RemoveAll(d2)
			}
			os.Remove(filepath.Join(s, "synced0.json"))
		}
		// torn tails: additionally drop any suffix of the bytes written after the last fsync
		if images && len(cp.Unsynced) > 0 {
			var files []string
			for f := range cp.Unsynced {
				files = append(files, f)
			}
			sort.Strings(files)
			for _, f := range files {
				rg := cp.Unsynced[f]
				for _, cut := range cutsFor(rg[0], rg[1], dense) {
					if len(res.Violations) >= 8 {
						break
					}
					d2 := filepath.Join(cc.base, fmt.Sprintf("d%d-cut", n))
					os.RemoveAll(d2)
					copyDir(img, d2)
					os.Truncate(filepath.Join(d2, f), cut)
					imgs++
					cutBytes += int(rg[1] - cut)
					if rg[1] > cut {
						res.AddObs("images_with_bytes_cut", 1)
					}
					cc.classes["image|"+fileClass(f)]++
					cc.verifyAndJudge(d2, s, st, false, fmt.Sprintf("crash at kill index %d plus loss of the unsynced tail of %s: truncated to %d of [synced %d, size %d)", n, f, cut, rg[0], rg[1]), cp)
					os.RemoveAll(d2)
				}
			}
			// all unsynced files cut back to their synced length at once
			if len(files) >= 2 {
				d2 := filepath.Join(cc.base, fmt.Sprintf("d%d-cutall", n))
				copyDir(img, d2)
				for _, f := range files {
					os.Truncate(filepath.Join(d2, f), cp.Unsynced[f][0])
				}
				imgs++
				cc.classes["image|combined"]++
				cc.verifyAndJudge(d2, s, st, false, fmt.Sprintf("crash at kill index %d plus loss of every unsynced tail (%v)", n, files), cp)
				os.RemoveAll(d2)
			}
		}
		os.RemoveAll(img)
		os.RemoveAll(s)
	}
	res.AddObs("crash_points", int64(points))
	res.AddObs("crash_sequences", int64(seqs))
	res.AddObs("torn_tail_images", int64(imgs))
	res.AddObs("torn_bytes_cut", int64(cutBytes))
	res.AddObs("points_with_commit_in_flight", int64(inflightPoints))
	res.AddObs("points_inside_multikey_commit", int64(multiInflight))
	for k, v := range cc.classes {
		res.AddObs("class."+k, v)
	}
	switch focus {
	case "C04":
		res.NonTrivial = multiInflight > 0
	case "C14":
		res.NonTrivial = imgs > 0 && cutBytes > 0
	default:
		res.NonTrivial = points > 0
	}
	res.Hash = core.HashOf([]any{c.N, c.S})
	if c.Int("sample", 0) == 1 {
		res.Sample = map[string]any{"program": map[string]any{"seed": cc.p.Seed, "flavour": c.Str("flavour", "plain"), "writers": cc.p.Writers, "drained": cc.p.Drained, "cfg": gen.CfgString(cc.p.Cfg), "keys": cc.p.Keys, "first_txns": cc.p.Txns[0][:min(3, len(cc.p.Txns[0]))]},
			"offset": offset, "stride": stride, "crash_points": sample}
	}
	return res
}

func genCrash(focus, tier string, seed int64) []core.Case {
	type spec struct {
		flavour string
		drained int64
		writers int64
		ntx     int64
		stride  int
		every   int // enumerate every 'every'-th residue class only (sampling for free-running programs)
	}
	var specs []spec
	add := func(n int, s spec) {
		for i := 0; i < n; i++ {
			specs = append(specs, s)
		}
	}
	quick := tier != "thorough"
	seqEvery, depth3 := int64(0), int64(0)
	switch focus {
	case "C03":
		if quick {
			add(2, spec{"plain", 1, 1, 30, 8, 1})
			add(1, spec{"deep", 1, 1, 36, 8, 1})
			add(1, spec{"plain", 0, 1, 30, 8, 2})
			add(1, spec{"plain", 0, 2, 16, 8, 2})
			add(1, spec{"closepending", 0, 1, 14, 8, 1})
			add(1, spec{"restarts", 1, 1, 24, 8, 1})
			add(1, spec{"hugeval", 1, 1, 4, 8, 1})
			seqEvery = 24
		} else {
			add(6, spec{"plain", 1, 1, 40, 16, 1})
			add(5, spec{"deep", 1, 1, 60, 16, 1})
			add(6, spec{"plain", 0, 1, 40, 16, 1})
			add(3, spec{"plain", 0, 3, 20, 16, 1})
			add(4, spec{"closepending", 0, 1, 24, 16, 1})
			add(3, spec{"bigtxn", 1, 1, 24, 16, 1})
			add(4, spec{"restarts", 1, 1, 40, 16, 1})
			add(2, spec{"hugeval", 1, 1, 6, 16, 1})
			seqEvery, depth3 = 12, 1
		}
	case "C04":
		seqEvery = 12
		if quick {
			seqEvery = 24
			add(2, spec{"multikey", 1, 1, 22, 8, 1})
			add(1, spec{"bigtxn", 1, 1, 14, 8, 1})
			add(1, spec{"deep", 1, 1, 36, 8, 1})
			add(1, spec{"manykeys", 1, 1, 3, 8, 1})
			add(1, spec{"multikey", 0, 1, 22, 8, 2})
			add(1, spec{"multikey", 0, 2, 12, 8, 2})
			add(1, spec{"hugeval", 1, 1, 4, 8, 1})
		} else {
			add(8, spec{"multikey", 1, 1, 40, 16, 1})
			add(4, spec{"bigtxn", 1, 1, 30, 16, 1})
			add(2, spec{"bigtxn", 0, 2, 16, 16, 1})
			add(4, spec{"deep", 1, 1, 60, 16, 1})
			add(3, spec{"manykeys", 1, 1, 8, 16, 1})
			add(6, spec{"multikey", 0, 1, 40, 16, 1})
			add(3, spec{"multikey", 0, 3, 20, 16, 1})
			add(3, spec{"hugeval", 1, 1, 6, 16, 1})
		}
	case "C14":
		if quick {
			add(2, spec{"plain", 1, 1, 16, 8, 1})
			add(1, spec{"multikey", 1, 1, 12, 8, 1})
			add(1, spec{"bigtxn", 1, 1, 10, 8, 1})
			add(1, spec{"plain", 0, 1, 16, 8, 2})
			add(1, spec{"hugeval", 1, 1, 4, 8, 1})
		} else {
			add(8, spec{"plain", 1, 1, 30, 16, 1})
			add(3, spec{"multikey", 1, 1, 24, 16, 1})
			add(3, spec{"deep", 1, 1, 36, 16, 1})
			add(5, spec{"plain", 0, 1, 30, 16, 1})
			add(3, spec{"bigtxn", 1, 1, 16, 16, 1})
			add(2, spec{"hugeval", 1, 1, 5, 16, 1})
		}
	}
	r := rand.New(rand.NewSource(seed*2038074743 + int64(focus[2])))
	var cs []core.Case
	only := os.Getenv("VERIF_FLAVOUR") // development aid: restrict the programs to one flavour
	for pi, s := range specs {
		pseed := r.Int63()
		if only != "" && s.flavour != only {
			continue
		}
		for off := 0; off < s.stride; off += s.every {
			c := core.Case{ID: fmt.Sprintf("p%02d-o%02d", pi, off), Kind: "crash", Seed: pseed,
				S: map[string]string{"flavour": s.flavour},
				N: map[string]int64{"pseed": pseed, "drained": s.drained, "writers": s.writers, "ntx": s.ntx, "offset": int64(off), "stride": int64(s.stride), "seqevery": seqEvery, "depth3": depth3}}
			if pi%3 == 1 {
				c.N["tsbase"] = int64(1 + (pi/3)%5)
			}
			if focus == "C14" {
				c.N["images"] = 1
				c.N["seqevery"] = 16
				if !quick {
					c.N["seqevery"] = 12
				}
				if !quick {
					c.N["dense"] = 1
				}
			}
			if off == 0 && pi < 2 {
				c.N["sample"] = 1
			}
			cs = append(cs, c)
		}
	}
	return cs
}

func crashSelfTest() error {
	p := crashProgram{Keys: []string{"a", "b", "c"}, Writers: 1}
	st := ackState{expected: map[string]string{"a": "1", "b": "2"}, written: map[string]map[string]bool{"a": {"1": true, "9": true}, "b": {"2": true, "0": true}, "c": {"7": true}},
		inflight: []crashTxn{{Writer: 0, Idx: 5, Writes: map[string]string{"a": "9", "c": "7"}}}}
	post0 := map[string]string{"a": "post-a", "c": "post-c"}
	type tc struct {
		state map[string]string
		want  string
	}
	for i, c := range []tc{
		{map[string]string{"a": "1", "b": "2"}, ""},
		{map[string]string{"a": "9", "b": "2", "c": "7"}, ""},
		{map[string]string{"a": "9", "b": "2"}, "C04 partial-transaction"},
		{map[string]string{"a": "1"}, "C03 acknowledged-write-lost"},
		{map[string]string{"a": "1", "b": "0"}, "C03 stale-value"},
		{map[string]string{"a": "1", "b": "zz"}, "C03 alien-value"},
		{map[string]string{"a": "5", "b": "2"}, "C03 inflight-key-neither-old-nor-new"},
	} {
		post := map[string]string{}
		for k, v := range post0 {
			post[k] = v
		}
		if v, ok := c.state["b"]; ok {
			post["b"] = v
		}
		js := judgeRecovery(st, verifyOut{State: c.state, Post: post}, p, true)
		got := ""
		if len(js) > 0 {
			got = js[0].Prop + " " + js[0].Sig
		}
		if got != c.want {
			return fmt.Errorf("crash judge self-test %d: got %q want %q", i, got, c.want)
		}
	}
	if js := judgeRecovery(st, verifyOut{State: map[string]string{"a": "1", "b": "2"}, Post: map[string]string{"a": "post-a", "b": "2"}}, p, true); len(js) != 1 || js[0].Sig != "post-recovery-commit-not-retained" {
		return fmt.Errorf("crash judge self-test: lost post-recovery commit not flagged")
	}
	st2 := ackState{expected: map[string]string{"a": "1", "b": "2"}, written: map[string]map[string]bool{"a": {"1": true}, "b": {"2": true, "0": true}}, lastTxn: map[string]string{"a": "0.3", "b": "0.3"}}
	found := false
	for _, j := range judgeRecovery(st2, verifyOut{State: map[string]string{"a": "1", "b": "0"}, Post: map[string]string{"a": "post-a", "b": "0", "c": "post-c"}}, p, true) {
		if j.Prop == "C04" && j.Sig == "acknowledged-transaction-partially-visible" {
			found = true
		}
	}
	if !found {
		return fmt.Errorf("crash judge self-test: partially visible acknowledged transaction not flagged")
	}
	for _, j := range judgeRecovery(st2, verifyOut{State: map[string]string{"a": "0", "b": "0"}, Post: map[string]string{"a": "post-a", "b": "0", "c": "post-c"}}, p, true) {
		if j.Prop == "C04" {
			return fmt.Errorf("crash judge self-test: a wholly lost transaction is all-or-nothing, must not be a C04 finding")
		}
	}
	if js := judgeRecovery(st, verifyOut{State: map[string]string{"a": "1", "b": "2"}, Post: map[string]string{"a": "post-a", "c": "post-c"}}, p, true); len(js) != 1 || js[0].Sig != "recovered-value-lost-after-further-commits" {
		return fmt.Errorf("crash judge self-test: value lost after post-recovery commits not flagged")
	}
	if js := judgeRecovery(st, verifyOut{Idle: true, State: map[string]string{"a": "1", "b": "2"}, Post: map[string]string{"b": "2"}}, p, true); len(js) != 1 || js[0].Sig != "recovered-value-lost-after-close" {
		return fmt.Errorf("crash judge self-test: value lost by an idle Close after recovery not flagged")
	}
	if js := judgeRecovery(st, verifyOut{Idle: true, State: map[string]string{"a": "1", "b": "2"}, Post: map[string]string{"a": "1", "b": "2"}}, p, true); len(js) != 0 {
		return fmt.Errorf("crash judge self-test: an idle Close that keeps everything was flagged: %v", js)
	}
	return nil
}

// crashPost makes the evidence count what was actually explored: crash points (and sequences,
// images), all distinct by construction (program, kill index[, recovery kill index][, file, cut]).
func crashPost(focus string) func(string, []core.Result, map[string]any) {
	return func(tier string, results []core.Result, cov map[string]any) {
		obs, _ := cov["observed"].(map[string]int64)
		points, seqs, imgs := obs["crash_points"], obs["crash_sequences"], obs["torn_tail_images"]
		cov["cases_run"] = cov["evaluations"]
		cov["cases_nontrivial"] = cov["distinct_nontrivial"]
		cov["evaluations"] = points + seqs + imgs
		switch focus {
		case "C04":
			cov["distinct_nontrivial"] = obs["points_inside_multikey_commit"]
		case "C14":
			cov["distinct_nontrivial"] = obs["images_with_bytes_cut"]
		default:
			cov["distinct_nontrivial"] = points + seqs
		}
		classes := map[string]int64{}
		for k, v := range obs {
			if strings.HasPrefix(k, "class.") {
				classes[strings.TrimPrefix(k, "class.")] = v
			}
		}
		cov["crash_point_classes"] = classes
		cov["distinct_crash_point_classes"] = len(classes)
	}
}

func init() {
	common := "a workload process executes a seeded program (20-60 transactions of 1-6 Set/Delete with unique values, thresholds that force rotation, flush and compaction every few commits; drained = the flusher is awaited after each commit so the operation sequence is deterministic, free-running = flusher concurrent, 1-3 writers with disjoint keys) and is killed with os.Exit inside the hook before its N-th mutating file-system operation (create/write/fsync/rename/remove of wal and table files); every N of the program is enumerated (cases partition N by residue class; quick samples every second class of free-running programs); a fresh process recovers, reads every key, commits to every key, closes, reopens and reads again; oracle = acknowledgement log written outside the database directory (CALL before Update, ACK after it returned nil)"
	core.Register(&core.Check{
		Prop: "C03", Level: "fault_enumeration",
		Rule:     common + "; acknowledged writes must be visible, keys of the commit in flight old or new, no alien values, Open must succeed, post-recovery commits retained; at every 12th (thorough) / 24th (quick) crash point the recovery is itself killed before each of its operations and recovered again (thorough: a third crash inside the second recovery); evidence counts crash points and sequences (evaluations), all distinct by (program, kill index[, recovery kill indices]); non-trivial = the kill actually happened and the recovery was judged",
		Gen:      func(tier string, seed int64) []core.Case { return genCrash("C03", tier, seed) },
		Run:      func(c core.Case) core.Result { return runCrashCase(c, "C03") },
		Post:     crashPost("C03"),
		SelfTest: crashSelfTest, BatchSize: 2, GoMaxProcs: 2, Parallel: 10, CaseTimeout: 2400e9,
		MinNonTrivial: map[string]int{"quick": 15, "thorough": 200},
		Exhaustive:    func(tier string) bool { return false },
		Assumptions: []string{"process-crash model: every completed file-system operation persists; an operation in flight in another goroutine at the kill may or may not have completed",
			"kill points are the hooked operations of wal.go and level.go (verified to be all mutating operations of the engine by reading the code)",
			"exhaustive over N only for drained single-writer programs (deterministic operation sequence); free-running programs are sampled schedules"},
	})
	core.Register(&core.Check{
		Prop: "C04", Level: "fault_enumeration",
		Rule:     common + "; programs are biased to 3-6-key transactions and to memtable thresholds that make a transaction straddle a rotation; rules: among the keys of the transaction whose CALL has no ACK, new and old values must not both occur; among the keys whose last acknowledged writer is one transaction, all read its writes or none does; at every 24th (quick) / 12th (thorough) crash point the recovery is itself killed before each of its operations and recovered again; evidence counts crash points (evaluations); non-trivial = crash point that fell between CALL and ACK of a transaction writing >=2 keys; distinct by (program, kill index)",
		Gen:      func(tier string, seed int64) []core.Case { return genCrash("C04", tier, seed) },
		Run:      func(c core.Case) core.Result { return runCrashCase(c, "C04") },
		Post:     crashPost("C04"),
		SelfTest: crashSelfTest, BatchSize: 2, GoMaxProcs: 2, Parallel: 10, CaseTimeout: 2400e9,
		MinNonTrivial: map[string]int{"quick": 15, "thorough": 200},
		Assumptions:   []string{"process-crash model as C03", "transactions acknowledged before the crash are all-or-nothing by the C03 rule (all of their writes visible)"},
	})
	core.Register(&core.Check{
		Prop: "C14", Level: "fault_enumeration",
		Rule:     common + "; the hook handler tracks the fsynced length of every file (rename carries it over); at every crash point that has a file with bytes beyond its synced length, images are built in which that file is cut to every length in [synced, size) (gap <= 64 bytes, thorough <= 128) or to {synced, +1, +7..9, middle, -9, -8, -1}, plus one image with all such files cut to their synced length; each image is recovered and judged like C03 without the atomicity rule; at every 16th (quick) / 12th (thorough) crash point the recovery is additionally killed before each of its own operations and the tails left unsynced by the recovery are cut; evidence counts crash points plus images (evaluations); non-trivial = image in which >=1 byte was actually cut; distinct by (program, kill index, file, cut length)",
		Gen:      func(tier string, seed int64) []core.Case { return genCrash("C14", tier, seed) },
		Run:      func(c core.Case) core.Result { return runCrashCase(c, "C14") },
		Post:     crashPost("C14"),
		SelfTest: crashSelfTest, BatchSize: 2, GoMaxProcs: 2, Parallel: 10, CaseTimeout: 2400e9,
		MinNonTrivial: map[string]int{"quick": 10, "thorough": 150},
		Assumptions:   []string{"truncation of unsynced suffixes only (no bit rot, no reordering of directory operations: create/rename/remove are ordered and durable)", "a file's synced length is its size at its last fsync"},
	})
}
