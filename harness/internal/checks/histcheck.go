package checks

import (
	"fmt"
	"sort"
	"strings"
	"time"

	"github.com/anishathalye/porcupine"
)

// Client-boundary transaction histories and their offline checkers (C05, C06, C07, C08, C12).
//
// Every value written carries a unique id (>0); id 0 stands for "not found" (never written or
// deleted). Timestamps come from one atomic logical clock read immediately before and after each
// API call in the client goroutine.

const maxHistKeys = 6

type hRead struct {
	K   int   `json:"k"`
	V   int32 `json:"v"`             // observed value id, 0 = not found, -1 = a value nobody wrote
	Own bool  `json:"own,omitempty"` // served from the transaction's own write buffer
	At  int64 `json:"at"`            // logical time of the call
}

type hWrite struct {
	K int   `json:"k"`
	V int32 `json:"v"` // 0 = delete
}

type hTxn struct {
	ID        int      `json:"id"`
	Client    int      `json:"client"`
	Update    bool     `json:"update"`
	BeginCall int64    `json:"bc"`
	BeginRet  int64    `json:"br"`
	EndCall   int64    `json:"ec"`
	EndRet    int64    `json:"er"`
	Reads     []hRead  `json:"reads,omitempty"`
	Writes    []hWrite `json:"writes,omitempty"` // every Set/Delete call in order (later ones overwrite)
	Outcome   string   `json:"outcome"`          // committed | conflict | discarded | closure-error | error:<text>
}

func (t *hTxn) finalWrites() map[int]int32 {
	m := map[int]int32{}
	for _, w := range t.Writes {
		m[w.K] = w.V
	}
	return m
}

// storeReads: reads not served by the own buffer
func (t *hTxn) storeReads() []hRead {
	var rs []hRead
	for _, r := range t.Reads {
		if !r.Own {
			rs = append(rs, r)
		}
	}
	return rs
}

func (t *hTxn) committedWriter() bool {
	return t.Update && t.Outcome == "committed" && len(t.Writes) > 0
}

func (t *hTxn) String() string {
	var rs, ws []string
	for _, r := range t.Reads {
		o := ""
		if r.Own {
			o = "*"
		}
		rs = append(rs, fmt.Sprintf("k%d=%d%s", r.K, r.V, o))
	}
	for _, w := range t.Writes {
		ws = append(ws, fmt.Sprintf("k%d:=%d", w.K, w.V))
	}
	kind := "ro"
	if t.Update {
		kind = "rw"
	}
	return fmt.Sprintf("T%d[c%d %s begin %d..%d reads{%s} writes{%s} end %d..%d %s]", t.ID, t.Client, kind, t.BeginCall, t.BeginRet,
		strings.Join(rs, ","), strings.Join(ws, ","), t.EndCall, t.EndRet, t.Outcome)
}

// porcupine model: state = value id per key; an operation = (reads that must match, writes to apply)
type hState [maxHistKeys]int32

type hOp struct {
	Txn    int
	Reads  []hRead
	Writes map[int]int32
}

var histModel = porcupine.Model{
	Init: func() any { return hState{} },
	Step: func(st, in, out any) (bool, any) {
		s := st.(hState)
		op := in.(hOp)
		for _, r := range op.Reads {
			if s[r.K] != r.V {
				return false, s
			}
		}
		for k, v := range op.Writes {
			s[k] = v
		}
		return true, s
	},
	DescribeOperation: func(in, out any) string {
		op := in.(hOp)
		return fmt.Sprintf("T%d reads=%v writes=%v", op.Txn, op.Reads, op.Writes)
	},
}

// project keeps only the given keys of an op; ops that touch none of them are dropped.
func projectOp(op hOp, keys map[int]bool) (hOp, bool) {
	p := hOp{Txn: op.Txn, Writes: map[int]int32{}}
	for _, r := range op.Reads {
		if keys[r.K] {
			p.Reads = append(p.Reads, r)
		}
	}
	for k, v := range op.Writes {
		if keys[k] {
			p.Writes[k] = v
		}
	}
	return p, len(p.Reads) > 0 || len(p.Writes) > 0
}

type histVerdict struct {
	Result  string // ok | illegal | unknown
	Witness string
	Ops     int
}

func describeOps(ops []porcupine.Operation, txns map[int]*hTxn, limit int) string {
	seen := map[int]bool{}
	var ids []int
	for _, o := range ops {
		id := o.Input.(hOp).Txn
		if !seen[id] {
			seen[id] = true
			ids = append(ids, id)
		}
	}
	sort.Ints(ids)
	var sb []string
	for i, id := range ids {
		if i >= limit {
			sb = append(sb, fmt.Sprintf("… %d more", len(ids)-limit))
			break
		}
		if t := txns[id]; t != nil {
			sb = append(sb, t.String())
		}
	}
	return strings.Join(sb, "\n")
}

// checkOps runs the projections (single keys, then pairs) and, if all are fine, the full history.
// histories with more operations than this come from crowd cases (>100 concurrent clients), where
// porcupine is hopeless; they are judged by the cheap definite rules only (lostUpdates,
// conflictRules, localRules) and the checker reports "skipped"
var lightCheckThreshold = 1 << 30

func checkOps(ops []porcupine.Operation, nkeys int, timeout time.Duration, txns map[int]*hTxn) histVerdict {
	v := histVerdict{Ops: len(ops)}
	if len(ops) > lightCheckThreshold {
		v.Result = "skipped"
		return v
	}
	run := func(sel map[int]bool, label string) (porcupine.CheckResult, []porcupine.Operation) {
		var sub []porcupine.Operation
		for _, o := range ops {
			if p, ok := projectOp(o.Input.(hOp), sel); ok {
				c := o
				c.Input = p
				sub = append(sub, c)
			}
		}
		if len(sub) == 0 {
			return porcupine.Ok, nil
		}
		return porcupine.CheckOperationsTimeout(histModel, sub, timeout), sub
	}
	for k := 0; k < nkeys; k++ {
		if r, sub := run(map[int]bool{k: true}, ""); r == porcupine.Illegal {
			v.Result = "illegal"
			v.Witness = fmt.Sprintf("projection on key k%d is not linearizable (%d operations):\n%s", k, len(sub), describeOps(shrink(sub, timeout), txns, 14))
			return v
		}
	}
	for a := 0; a < nkeys; a++ {
		for b := a + 1; b < nkeys; b++ {
			if r, sub := run(map[int]bool{a: true, b: true}, ""); r == porcupine.Illegal {
				v.Result = "illegal"
				v.Witness = fmt.Sprintf("projection on keys k%d,k%d is not linearizable (%d operations):\n%s", a, b, len(sub), describeOps(shrink(sub, timeout), txns, 14))
				return v
			}
		}
	}
	all := map[int]bool{}
	for k := 0; k < nkeys; k++ {
		all[k] = true
	}
	r, sub := run(all, "")
	switch r {
	case porcupine.Illegal:
		v.Result = "illegal"
		v.Witness = fmt.Sprintf("full history is not linearizable (%d operations):\n%s", len(sub), describeOps(shrink(sub, timeout), txns, 14))
	case porcupine.Unknown:
		v.Result = "unknown"
	default:
		v.Result = "ok"
	}
	return v
}

// shrink greedily removes operations while the history stays illegal (bounded effort), so that the
// witness shown is small. Removing a writer can only turn reads of its values illegal, which keeps
// the sub-history a genuine refutation only if we keep writers of values that are read; we
// therefore only drop operations whose written values nobody in the remaining history reads.
func shrink(ops []porcupine.Operation, timeout time.Duration) []porcupine.Operation {
	if len(ops) > 400 {
		return ops
	}
	cur := ops
	deadline := time.Now().Add(2 * time.Second)
	for i := len(cur) - 1; i >= 0 && time.Now().Before(deadline); i-- {
		op := cur[i].Input.(hOp)
		needed := false
		for _, v := range op.Writes {
			for j, o := range cur {
				if j == i {
					continue
				}
				for _, r := range o.Input.(hOp).Reads {
					if r.V == v && v != 0 {
						needed = true
					}
				}
			}
		}
		if needed {
			continue
		}
		cand := append(append([]porcupine.Operation{}, cur[:i]...), cur[i+1:]...)
		if porcupine.CheckOperationsTimeout(histModel, cand, 200*time.Millisecond) == porcupine.Illegal {
			cur = cand
		}
	}
	return cur
}

// snapOps builds the C05 history: one snapshot-read per transaction at its Begin interval and one
// write per committed writer at its Commit interval.
func snapOps(txns []*hTxn) []porcupine.Operation {
	var ops []porcupine.Operation
	for _, t := range txns {
		if rs := t.storeReads(); len(rs) > 0 {
			ops = append(ops, porcupine.Operation{ClientId: t.ID * 2, Input: hOp{Txn: t.ID, Reads: rs}, Call: t.BeginCall, Return: t.BeginRet})
		}
		if t.committedWriter() {
			ops = append(ops, porcupine.Operation{ClientId: t.ID*2 + 1, Input: hOp{Txn: t.ID, Writes: t.finalWrites()}, Call: t.EndCall, Return: t.EndRet})
		}
	}
	return ops
}

// serOps builds the C06 history: one atomic operation per committed transaction (read-only ones
// included) over its whole lifetime.
func serOps(txns []*hTxn) []porcupine.Operation {
	var ops []porcupine.Operation
	for _, t := range txns {
		committed := t.Outcome == "committed" || (!t.Update && (t.Outcome == "discarded" || t.Outcome == "committed"))
		if !committed {
			continue
		}
		rs := t.storeReads()
		var ws map[int]int32
		if t.Update && t.Outcome == "committed" {
			ws = t.finalWrites()
		}
		if len(rs) == 0 && len(ws) == 0 {
			continue
		}
		ops = append(ops, porcupine.Operation{ClientId: t.ID, Input: hOp{Txn: t.ID, Reads: rs, Writes: ws}, Call: t.BeginCall, Return: t.EndRet})
	}
	return ops
}

type histFinding struct {
	Prop, Sig, Detail string
}

// lostUpdates: two committed transactions read the same version of a key from the store and both
// overwrote that key - neither can be serialized after the other (definite, cheap, any history size).
func lostUpdates(txns []*hTxn) []histFinding {
	deletes := map[int]bool{}
	for _, t := range txns {
		for _, w := range t.Writes {
			if w.V == 0 {
				deletes[w.K] = true
			}
		}
	}
	type kv struct {
		k int
		v int32
	}
	first := map[kv]*hTxn{}
	var out []histFinding
	for _, t := range txns {
		if !t.committedWriter() {
			continue
		}
		fw := t.finalWrites()
		seen := map[kv]bool{}
		for _, r := range t.storeReads() {
			if _, writes := fw[r.K]; !writes || r.V < 0 || (r.V == 0 && deletes[r.K]) {
				continue
			}
			key := kv{r.K, r.V}
			if seen[key] {
				continue
			}
			seen[key] = true
			if o := first[key]; o != nil && o.ID != t.ID {
				out = append(out, histFinding{"C06", "lost-update", fmt.Sprintf("%s and %s both read k%d=%d from the store and both overwrote k%d, and both committed", o, t, r.K, r.V, r.K)})
				if len(out) >= 3 {
					return out
				}
				continue
			}
			first[key] = t
		}
	}
	return out
}

// localRules: read-your-writes, no reads of values that were never committed (G1a) or that were
// overwritten inside their own transaction before commit (G1b), no alien values.
func localRules(txns []*hTxn) []histFinding {
	var out []histFinding
	writer := map[int32]*hTxn{}
	final := map[int32]bool{}
	for _, t := range txns {
		for _, w := range t.Writes {
			if w.V != 0 {
				writer[w.V] = t
			}
		}
		for _, v := range t.finalWrites() {
			if v != 0 {
				final[v] = true
			}
		}
	}
	for _, t := range txns {
		buf := map[int]int32{}
		has := map[int]bool{}
		// interleave reads and writes by logical time: writes carry no time, but the recorder appends
		// reads with Own computed from the buffer at that moment, so only check Own reads here
		wi := 0
		_ = wi
		for _, r := range t.Reads {
			if r.V == -1 {
				out = append(out, histFinding{"C05", "alien-value", fmt.Sprintf("%s read a value on k%d that no transaction ever wrote", t, r.K)})
				continue
			}
			if r.Own {
				continue
			}
			if r.V == 0 {
				continue
			}
			w := writer[r.V]
			if w == nil {
				continue
			}
			if w.ID == t.ID {
				out = append(out, histFinding{"C05", "own-write-from-store", fmt.Sprintf("%s read its own uncommitted value %d from the store", t, r.V)})
				continue
			}
			if w.Outcome != "committed" {
				out = append(out, histFinding{"C08", "aborted-read/" + w.Outcome, fmt.Sprintf("%s read value %d of k%d, written only by %s which did not commit", t, r.V, r.K, w)})
				continue
			}
			if !final[r.V] {
				out = append(out, histFinding{"C08", "intermediate-read", fmt.Sprintf("%s read value %d of k%d, which %s overwrote before committing", t, r.V, r.K, w)})
			}
		}
		_ = buf
		_ = has
	}
	return out
}

// conflictRules judges Commit outcomes under real concurrency (C07), three-valued.
//
//	spurious: T refused although no committed writer W with writes(W) ∩ storeReads(T) ≠ ∅ has a
//	          commit interval that intersects (T.begin.call, T.commit.ret)
//	missed:   T committed (with writes) although some committed W with an intersecting write set
//	          has W.commit.call > T.begin.ret and W.commit.ret < T.commit.call
//	must-commit: read-only, write-only and never-overlapped transactions must not be refused
func conflictRules(txns []*hTxn) (findings []histFinding, judged, unjudged int) {
	var writers []*hTxn
	writerOf := map[int32]*hTxn{}
	deletes := map[int]bool{}
	for _, t := range txns {
		if t.committedWriter() {
			writers = append(writers, t)
		}
		for _, w := range t.Writes {
			if w.V > 0 {
				writerOf[w.V] = t
			} else {
				deletes[w.K] = true
			}
		}
	}
	for _, t := range txns {
		if !t.Update {
			if t.Outcome == "conflict" {
				findings = append(findings, histFinding{"C07", "readonly-refused", t.String()})
			}
			continue
		}
		if t.Outcome != "conflict" && t.Outcome != "committed" {
			continue
		}
		readKeys := map[int]bool{}
		for _, r := range t.storeReads() {
			readKeys[r.K] = true
		}
		if t.Outcome == "conflict" {
			if len(t.Writes) == 0 {
				findings = append(findings, histFinding{"C07", "refused-without-writes", t.String()})
				continue
			}
			if len(readKeys) == 0 {
				findings = append(findings, histFinding{"C07", "spurious/write-only-refused", t.String()})
				continue
			}
			possible := false
			for _, w := range writers {
				if w.ID == t.ID {
					continue
				}
				inter := false
				for k := range w.finalWrites() {
					if readKeys[k] {
						inter = true
					}
				}
				for _, ww := range w.Writes {
					if readKeys[ww.K] {
						inter = true
					}
				}
				if inter && w.EndRet > t.BeginCall && w.EndCall < t.EndRet {
					possible = true
					break
				}
			}
			judged++
			if !possible {
				findings = append(findings, histFinding{"C07", "spurious/no-overlapping-writer", fmt.Sprintf("%s was refused although no committed transaction wrote any key it read between its Begin and its Commit", t)})
			}
			continue
		}
		// committed
		if len(t.Writes) == 0 || len(readKeys) == 0 {
			continue
		}
		definite := false
		// stale read at commit time: T read value v of key k from the store; a committed W (not T, not
		// v's writer) wrote k, W's commit started after v's writer had finished (so W's version is
		// newer than v) and W's commit had returned before T's Commit was called. T did not see W's
		// write although W committed after T's snapshot: T had to be refused.
		for _, rd := range t.storeReads() {
			if definite {
				break
			}
			var vw *hTxn
			if rd.V > 0 {
				vw = writerOf[rd.V]
				if vw == nil {
					continue
				}
			} else if rd.V < 0 || deletes[rd.K] {
				continue // 'not found' is ambiguous once the key has been deleted by someone
			}
			for _, w := range writers {
				if w.ID == t.ID || (vw != nil && w.ID == vw.ID) {
					continue
				}
				wrote := false
				for _, ww := range w.Writes {
					if ww.K == rd.K {
						wrote = true
					}
				}
				if !wrote || w.EndRet >= t.EndCall {
					continue
				}
				if vw != nil && !(vw.EndRet < w.EndCall) {
					continue
				}
				findings = append(findings, histFinding{"C07", "missed-conflict/stale-read", fmt.Sprintf("%s committed although it had read k%d=%d and %s, whose newer write to k%d it did not see, had committed before its Commit was called", t, rd.K, rd.V, w, rd.K)})
				definite = true
				break
			}
		}
		if definite {
			continue
		}
		for _, w := range writers {
			if w.ID == t.ID {
				continue
			}
			inter := false
			for _, ww := range w.Writes {
				if readKeys[ww.K] {
					inter = true
				}
			}
			if !inter {
				continue
			}
			if w.EndCall > t.BeginRet && w.EndRet < t.EndCall {
				findings = append(findings, histFinding{"C07", "missed-conflict", fmt.Sprintf("%s committed although %s, which wrote a key it read, committed entirely between its Begin and its Commit", t, w)})
				definite = true
				break
			}
			if w.EndRet > t.BeginCall && w.EndCall < t.EndRet {
				unjudged++
			}
		}
		if !definite {
			judged++
		}
	}
	return
}

func histSelfTest() error {
	mk := func(id int, upd bool, bc, br, ec, er int64, reads []hRead, writes []hWrite, outcome string) *hTxn {
		return &hTxn{ID: id, Client: id, Update: upd, BeginCall: bc, BeginRet: br, EndCall: ec, EndRet: er, Reads: reads, Writes: writes, Outcome: outcome}
	}
	idx := func(ts []*hTxn) map[int]*hTxn {
		m := map[int]*hTxn{}
		for _, t := range ts {
			m[t.ID] = t
		}
		return m
	}
	type tc struct {
		name      string
		txns      []*hTxn
		snap, ser string
	}
	cases := []tc{
		{"serial", []*hTxn{
			mk(1, true, 1, 2, 3, 4, nil, []hWrite{{0, 1}}, "committed"),
			mk(2, false, 5, 6, 7, 8, []hRead{{K: 0, V: 1}}, nil, "discarded"),
		}, "ok", "ok"},
		{"stale snapshot: reader began after the commit returned but missed it", []*hTxn{
			mk(1, true, 1, 2, 3, 4, nil, []hWrite{{0, 1}}, "committed"),
			mk(2, false, 5, 6, 7, 8, []hRead{{K: 0, V: 0}}, nil, "discarded"),
		}, "illegal", "illegal"},
		{"fractured read: part of a multi-key commit", []*hTxn{
			mk(1, true, 1, 2, 3, 6, nil, []hWrite{{0, 1}, {1, 2}}, "committed"),
			mk(2, false, 4, 5, 7, 8, []hRead{{K: 0, V: 1}, {K: 1, V: 0}}, nil, "discarded"),
		}, "illegal", "illegal"},
		{"lost update: both read 0, both committed", []*hTxn{
			mk(1, true, 1, 2, 5, 6, []hRead{{K: 0, V: 0}}, []hWrite{{0, 1}}, "committed"),
			mk(2, true, 3, 4, 7, 8, []hRead{{K: 0, V: 0}}, []hWrite{{0, 2}}, "committed"),
		}, "ok", "illegal"},
		{"write skew", []*hTxn{
			mk(1, true, 1, 2, 5, 6, []hRead{{K: 0, V: 0}, {K: 1, V: 0}}, []hWrite{{0, 1}}, "committed"),
			mk(2, true, 3, 4, 7, 8, []hRead{{K: 0, V: 0}, {K: 1, V: 0}}, []hWrite{{1, 2}}, "committed"),
		}, "ok", "illegal"},
		{"refused transaction is not part of the serial order", []*hTxn{
			mk(1, true, 1, 2, 5, 6, []hRead{{K: 0, V: 0}}, []hWrite{{0, 1}}, "committed"),
			mk(2, true, 3, 4, 7, 8, []hRead{{K: 0, V: 0}}, []hWrite{{0, 2}}, "conflict"),
		}, "ok", "ok"},
		{"non-repeatable read", []*hTxn{
			mk(1, true, 3, 4, 5, 6, nil, []hWrite{{0, 1}}, "committed"),
			mk(2, false, 1, 2, 9, 10, []hRead{{K: 0, V: 0}, {K: 0, V: 1}}, nil, "discarded"),
		}, "illegal", "illegal"},
	}
	for _, c := range cases {
		m := idx(c.txns)
		if got := checkOps(snapOps(c.txns), 2, 5*time.Second, m).Result; got != c.snap {
			return fmt.Errorf("history self-test %q: SNAP says %s, want %s", c.name, got, c.snap)
		}
		if got := checkOps(serOps(c.txns), 2, 5*time.Second, m).Result; got != c.ser {
			return fmt.Errorf("history self-test %q: SER says %s, want %s", c.name, got, c.ser)
		}
	}
	if f := lostUpdates(cases[3].txns); len(f) != 1 {
		return fmt.Errorf("history self-test: lost update not flagged by the cheap rule: %v", f)
	}
	if f := lostUpdates(cases[5].txns); len(f) != 0 {
		return fmt.Errorf("history self-test: false alarm of the cheap lost-update rule: %v", f)
	}
	// local rules
	ab := []*hTxn{
		mk(1, true, 1, 2, 3, 4, nil, []hWrite{{0, 1}}, "discarded"),
		mk(2, false, 5, 6, 7, 8, []hRead{{K: 0, V: 1}}, nil, "discarded"),
	}
	if f := localRules(ab); len(f) != 1 || f[0].Prop != "C08" {
		return fmt.Errorf("history self-test: aborted read not flagged: %v", f)
	}
	// conflict rules
	sp := []*hTxn{mk(1, true, 1, 2, 3, 4, []hRead{{K: 0, V: 0}}, []hWrite{{0, 1}}, "conflict")}
	if f, _, _ := conflictRules(sp); len(f) != 1 {
		return fmt.Errorf("history self-test: spurious abort not flagged")
	}
	ms := []*hTxn{
		mk(1, true, 1, 2, 9, 10, []hRead{{K: 0, V: 0}}, []hWrite{{1, 5}}, "committed"),
		mk(2, true, 3, 4, 5, 6, nil, []hWrite{{0, 1}}, "committed"),
	}
	if f, _, _ := conflictRules(ms); len(f) != 1 || !strings.HasPrefix(f[0].Sig, "missed") {
		return fmt.Errorf("history self-test: missed conflict not flagged: %v", f)
	}
	// stale read at commit time: W committed while T was still inside Begin, T read the old value
	st := []*hTxn{
		mk(1, true, 1, 2, 3, 4, nil, []hWrite{{0, 1}}, "committed"),
		mk(2, true, 5, 12, 20, 21, []hRead{{K: 0, V: 1}}, []hWrite{{1, 7}}, "committed"),
		mk(3, true, 6, 7, 8, 9, nil, []hWrite{{0, 2}}, "committed"),
	}
	if f, _, _ := conflictRules(st); len(f) != 1 || f[0].Sig != "missed-conflict/stale-read" {
		return fmt.Errorf("history self-test: stale read at commit time not flagged: %v", f)
	}
	st[1].Reads[0].V = 2 // it saw the newer write: fine
	if f, _, _ := conflictRules(st); len(f) != 0 {
		return fmt.Errorf("history self-test: false alarm of the stale-read rule: %v", f)
	}
	return nil
}
