package checks

import (
	"errors"
	"fmt"
	"math/rand"
	"os"
	"path/filepath"
	"strings"
	"time"

	"github.com/B1NARY-GR0UP/originium"
	"github.com/B1NARY-GR0UP/originium/types"

	"verifharness/internal/core"
	"verifharness/internal/eng"
	"verifharness/internal/gen"
)

// Exact interleaving driver: ONE goroutine owns up to 6 open transactions and executes a seeded
// sequence of API calls. Every call is sequential at the boundary, so an MVCC store plus the SSI
// conflict rule predict EVERY Get result and EVERY Commit result exactly (an iff for C07).

type sVer struct {
	seq int
	id  int32 // 0 = delete
}

type sTxn struct {
	tx        *originium.Txn
	rec       *hTxn
	update    bool
	snap      int
	storeRead map[int]bool
	buf       map[int]int32
	finished  bool
	pinned    bool
}

type scripted struct {
	c    core.Case
	r    *rand.Rand
	res  *core.Result
	db   *originium.DB
	dir  string
	cfg  originium.Config
	keys []string
	hist [][]sVer // per key
	cws  []struct {
		seq  int
		keys map[int]bool
	}
	seq     int
	nextVal int32
	valStr  map[int32]string
	valID   map[string]int32
	clock   int64
	txns    []*hTxn
	open    []*sTxn
	done    []*sTxn // finished transactions kept for misuse calls
	trace   []string
	nid     int
	stat    map[string]int64
	avoid   map[int]bool
}

func (s *scripted) tick() int64 { s.clock++; return s.clock }

func (s *scripted) logf(f string, a ...any) {
	s.trace = append(s.trace, fmt.Sprintf(f, a...))
	if len(s.trace) > 300 && os.Getenv("VERIF_DEBUG_TRACE") == "" {
		s.trace = s.trace[150:]
	}
}

func (s *scripted) fail(prop, sig, f string, a ...any) {
	s.res.Violate(prop, prop+"/scripted/"+sig, "%s\nconfig: %s keys %q\nlast steps: %s", fmt.Sprintf(f, a...), gen.CfgString(s.cfg), s.keys, strings.Join(s.trace[max(0, len(s.trace)-30):], " ; "))
}

func (s *scripted) readAt(k, snap int) int32 {
	vs := s.hist[k]
	for i := len(vs) - 1; i >= 0; i-- {
		if vs[i].seq <= snap {
			return vs[i].id
		}
	}
	return 0
}

func (s *scripted) newValue() (int32, []byte) {
	s.nextVal++
	id := s.nextVal
	str := fmt.Sprintf("v%d|%s", id, strings.Repeat("p", s.r.Intn(40)))
	s.valStr[id] = str
	s.valID[str] = id
	return id, []byte(str)
}

// newEmptyValue: a Set of an empty value is a write like any other (found, zero bytes) and differs
// from a Delete; it gets an id of its own in the model although its bytes do not name it.
func (s *scripted) newEmptyValue() (int32, []byte) {
	s.nextVal++
	id := s.nextVal
	s.valStr[id] = ""
	s.stat["empty_value_writes"]++
	if id%2 == 0 {
		return id, nil
	}
	return id, []byte{}
}

// idOf: want is the id the model predicts; it only serves to name an empty value (the driver is
// exact, an empty value where the model predicts another empty value is that value).
func (s *scripted) idOf(b []byte, ok bool, want int32) int32 {
	if !ok {
		return 0
	}
	if len(b) == 0 {
		if str, known := s.valStr[want]; known && want > 0 && str == "" {
			return want
		}
		return -3
	}
	if id, found := s.valID[string(b)]; found {
		return id
	}
	return -1
}

func (s *scripted) begin(update bool) *sTxn {
	s.nid++
	rec := &hTxn{ID: s.nid, Client: 0, Update: update}
	rec.BeginCall = s.tick()
	tx := s.db.Begin(update)
	rec.BeginRet = s.tick()
	t := &sTxn{tx: tx, rec: rec, update: update, snap: s.seq, storeRead: map[int]bool{}, buf: map[int]int32{}}
	s.txns = append(s.txns, rec)
	s.logf("T%d=Begin(%v)@snap%d", rec.ID, update, s.seq)
	return t
}

func (s *scripted) get(t *sTxn, k int) {
	at := s.tick()
	got, ok := t.tx.Get(s.keys[k])
	s.tick()
	var modelWant int32
	if v, has := t.buf[k]; has && t.update {
		modelWant = v
	} else {
		modelWant = s.readAt(k, t.snap)
	}
	id := s.idOf(got, ok, modelWant)
	s.stat["gets"]++
	if !t.finished {
		if mark, ts := s.db.VerifReadMark(), t.tx.VerifReadTs(); mark > ts {
			s.fail("C05", "read-watermark-above-open-snapshot", "T%d is open and reads at timestamp %d but the read watermark is %d", t.rec.ID, ts, mark)
		}
	}
	if t.finished {
		s.logf("T%d.Get(k%d)[finished]=%d", t.rec.ID, k, id)
		s.stat["misuse_calls"]++
		if ok {
			s.fail("C08", "get-on-finished", "Get on finished transaction T%d returned value id %d, want not-found", t.rec.ID, id)
		}
		return
	}
	var want int32
	own := false
	if v, has := t.buf[k]; has && t.update {
		want, own = v, true
	} else {
		want = s.readAt(k, t.snap)
		if t.update {
			t.storeRead[k] = true
		}
	}
	t.rec.Reads = append(t.rec.Reads, hRead{K: k, V: id, Own: own, At: at})
	s.logf("T%d.Get(k%d)=%d", t.rec.ID, k, id)
	if id != want {
		kind := "wrong-snapshot"
		prop := "C05"
		if own {
			kind = "own-write-not-read"
		} else if id > 0 {
			// whose value is it?
			cur := s.readAt(k, s.seq)
			committed := false
			for _, v := range s.hist[k] {
				if v.id == id {
					committed = true
				}
			}
			switch {
			case !committed && id != -1:
				kind, prop = "uncommitted-value-visible", "C08"
			case id == cur && id != want:
				kind = "sees-later-commit"
			default:
				kind = "wrong-version"
			}
		} else if id == 0 {
			kind = "version-missing"
		}
		s.fail(prop, "get/"+kind, "T%d (snapshot after commit #%d, %d commits so far) Get(%q)=id %d, model %d (own buffer: %v); committed versions of the key: %v",
			t.rec.ID, t.snap, s.seq, s.keys[k], id, want, own, s.hist[k][max(0, len(s.hist[k])-8):])
	}
}

func (s *scripted) write(t *sTxn, k int, del bool) {
	var err error
	var id int32
	empty := false
	if prev, has := t.buf[k]; has && t.update && !t.finished {
		// a second write to a key of this transaction: Delete over an empty value, an empty value
		// over a Delete and the same kind twice are the interesting successions
		prevEmpty := prev > 0 && s.valStr[prev] == ""
		switch x := s.r.Intn(4); {
		case prev == 0 && x < 2:
			del, empty = false, true
		case prevEmpty && x < 2:
			del = true
		case prevEmpty && x == 2:
			del, empty = false, true
		}
	} else if !del && s.r.Intn(10) == 0 {
		empty = true
	}
	viaEntry := s.r.Intn(6) == 0 // the third way to write: SetEntry (Version is the engine's to assign)
	if del {
		if viaEntry {
			s.stat["setentry_calls"]++
			err = t.tx.SetEntry(types.Entry{Key: s.keys[k], Value: []byte("value-of-a-tombstone"), Tombstone: true, Version: int64(s.r.Intn(3)) * 1 << 40})
		} else {
			err = t.tx.Delete(s.keys[k])
		}
	} else {
		var v []byte
		if empty {
			id, v = s.newEmptyValue()
		} else {
			id, v = s.newValue()
		}
		if viaEntry {
			s.stat["setentry_calls"]++
			err = t.tx.SetEntry(types.Entry{Key: s.keys[k], Value: v, Version: int64(s.r.Intn(3)) * 1 << 40})
		} else {
			err = t.tx.Set(s.keys[k], v)
		}
	}
	s.logf("T%d.Write(k%d:=%d)=%v", t.rec.ID, k, id, err)
	switch {
	case t.finished && !t.update:
		s.stat["misuse_calls"]++
		if !errors.Is(err, originium.ErrReadOnlyTxn) && !errors.Is(err, originium.ErrDiscardedTxn) {
			s.fail("C08", "misuse/write-finished-readonly", "write on finished read-only T%d returned %v", t.rec.ID, err)
		}
	case t.finished:
		s.stat["misuse_calls"]++
		if !errors.Is(err, originium.ErrDiscardedTxn) {
			s.fail("C08", "misuse/write-finished", "write on finished T%d returned %v, want ErrDiscardedTxn", t.rec.ID, err)
		}
	case !t.update:
		s.stat["misuse_calls"]++
		if !errors.Is(err, originium.ErrReadOnlyTxn) {
			s.fail("C08", "misuse/write-readonly", "write in read-only T%d returned %v, want ErrReadOnlyTxn", t.rec.ID, err)
		}
	default:
		if err != nil {
			s.fail("C08", "write-error", "Set/Delete in read-write T%d returned %v", t.rec.ID, err)
			return
		}
		t.buf[k] = id
		t.rec.Writes = append(t.rec.Writes, hWrite{K: k, V: id})
	}
}

func (s *scripted) wantConflict(t *sTxn) bool {
	if !t.update || len(t.buf) == 0 {
		return false
	}
	for _, c := range s.cws {
		if c.seq > t.snap {
			for k := range t.storeRead {
				if c.keys[k] {
					return true
				}
			}
		}
	}
	return false
}

func (s *scripted) applyCommit(t *sTxn) {
	s.seq++
	c := struct {
		seq  int
		keys map[int]bool
	}{seq: s.seq, keys: map[int]bool{}}
	for k, id := range t.buf {
		s.hist[k] = append(s.hist[k], sVer{s.seq, id})
		c.keys[k] = true
	}
	s.cws = append(s.cws, c)
	s.stat["commits"]++
}

func (s *scripted) finish(t *sTxn, how string) {
	for i, o := range s.open {
		if o == t {
			s.open = append(s.open[:i], s.open[i+1:]...)
			break
		}
	}
	t.finished = true
	s.done = append(s.done, t)
	if len(s.done) > 4 {
		s.done = s.done[1:]
	}
	t.rec.EndCall = s.tick()
	switch how {
	case "discard":
		t.tx.Discard()
		t.rec.EndRet = s.tick()
		t.rec.Outcome = "discarded"
		s.logf("T%d.Discard()", t.rec.ID)
		if t.update && len(t.buf) > 0 {
			s.stat["abandoned_writesets"]++
		}
	case "commit":
		want := s.wantConflict(t)
		err := t.tx.Commit()
		t.rec.EndRet = s.tick()
		s.logf("T%d.Commit()=%v", t.rec.ID, err)
		isConf := errors.Is(err, originium.ErrConflictTxn)
		if want {
			s.stat["predicted_conflicts"]++
		} else if t.update && len(t.buf) > 0 && len(t.storeRead) > 0 && t.snap < s.seq {
			s.stat["predicted_nonconflicting_overlaps"]++
		}
		switch {
		case want && !isConf:
			s.fail("C07", "missed-conflict", "T%d Commit()=%v but a key it read from the store was committed by another transaction after its snapshot (snapshot #%d, now #%d, store reads %v, writes %v)", t.rec.ID, err, t.snap, s.seq, keysOf(t.storeRead), t.buf)
		case !want && isConf:
			why := "no key it read from the store was committed after its snapshot"
			if !t.update {
				why = "it is read-only"
			} else if len(t.storeRead) == 0 {
				why = "it read nothing from the store"
			}
			s.fail("C07", "spurious-conflict", "T%d Commit() refused with a conflict although %s (snapshot #%d, now #%d, store reads %v, writes %v)", t.rec.ID, why, t.snap, s.seq, keysOf(t.storeRead), t.buf)
		case !want && err != nil:
			s.fail("C07", "commit-error", "T%d Commit()=%v", t.rec.ID, err)
		}
		switch {
		case isConf:
			t.rec.Outcome = "conflict"
			if len(t.buf) > 0 {
				s.stat["abandoned_writesets"]++
			}
		case err == nil:
			t.rec.Outcome = "committed"
			if t.update && len(t.buf) > 0 {
				s.applyCommit(t)
			}
		default:
			t.rec.Outcome = "error:" + err.Error()
		}
	}
}

func keysOf(m map[int]bool) []int {
	var ks []int
	for k := range m {
		ks = append(ks, k)
	}
	return ks
}

// closure runs a whole View/Update transaction inside one step.
func (s *scripted) closure(update bool) {
	s.nid++
	rec := &hTxn{ID: s.nid, Update: update}
	failErr := errors.New("closure failed on purpose")
	wantErr := s.r.Intn(4) == 0
	wantPanic := s.r.Intn(4) == 0
	buf := map[int]int32{}
	snap := s.seq
	fn := func(tx *originium.Txn) error {
		rec.BeginRet = s.tick()
		n := 1 + s.r.Intn(4)
		for i := 0; i < n; i++ {
			k := s.r.Intn(len(s.keys))
			if s.avoid[k] {
				k = (k + 1) % len(s.keys)
				if s.avoid[k] {
					continue
				}
			}
			if update && s.r.Intn(2) == 0 {
				var id int32
				var v []byte
				var err error
				prev, has := buf[k]
				switch x := s.r.Intn(10); {
				case x < 2 && !(has && prev == 0), has && prev > 0 && s.valStr[prev] == "" && x < 6:
					id = 0
					err = tx.Delete(s.keys[k])
				case x == 2, has && prev == 0 && x < 7:
					id, v = s.newEmptyValue()
					err = tx.Set(s.keys[k], v)
				default:
					id, v = s.newValue()
					err = tx.Set(s.keys[k], v)
				}
				if err != nil {
					s.fail("C08", "write-error", "write inside Update closure returned %v", err)
				}
				buf[k] = id
				rec.Writes = append(rec.Writes, hWrite{K: k, V: id})
			} else if !update && s.r.Intn(6) == 0 {
				err := tx.Set(s.keys[k], []byte("x"))
				s.stat["misuse_calls"]++
				if !errors.Is(err, originium.ErrReadOnlyTxn) {
					s.fail("C08", "misuse/write-in-view", "Set inside View returned %v, want ErrReadOnlyTxn", err)
				}
			} else {
				at := s.tick()
				got, ok := tx.Get(s.keys[k])
				want, own := s.readAt(k, snap), false
				if v, has := buf[k]; has {
					want, own = v, true
				}
				id := s.idOf(got, ok, want)
				rec.Reads = append(rec.Reads, hRead{K: k, V: id, Own: own, At: at})
				s.stat["gets"]++
				if id != want {
					s.fail("C05", "get/closure", "Get(%q) inside a closure = id %d, model %d (own buffer %v)", s.keys[k], id, want, own)
				}
			}
		}
		rec.EndCall = s.tick()
		if wantErr && wantPanic {
			panic(failErr) // the closure is abandoned by a panic the caller recovers from
		}
		if wantErr {
			return failErr
		}
		return nil
	}
	rec.BeginCall = s.tick()
	var err error
	func() {
		defer func() {
			if r := recover(); r != nil {
				if r != any(failErr) {
					panic(r)
				}
				err = failErr
				s.stat["closures_abandoned_by_panic"]++
			}
		}()
		if update {
			err = s.db.Update(fn)
		} else {
			err = s.db.View(fn)
		}
	}()
	rec.EndRet = s.tick()
	s.txns = append(s.txns, rec)
	s.logf("closure(update=%v fail=%v)=%v writes %v", update, wantErr, err, rec.Writes)
	s.stat["closures"]++
	switch {
	case wantErr && !errors.Is(err, failErr):
		s.fail("C08", "closure-error-lost", "closure returned an error but Update/View returned %v", err)
		rec.Outcome = "closure-error"
	case wantErr:
		rec.Outcome = "closure-error"
		if len(buf) > 0 {
			s.stat["abandoned_writesets"]++
		}
	case err != nil:
		// the transaction lives inside one step: nobody can commit in between, it must not conflict
		s.fail("C07", "spurious-conflict/closure", "Update/View of a closure that returned nil gave %v although nothing committed during it", err)
		rec.Outcome = "conflict"
	default:
		rec.Outcome = "committed"
		if update && len(buf) > 0 {
			t := &sTxn{update: true, buf: buf}
			s.applyCommit(t)
		}
	}
}

func (s *scripted) misuseEmptyKey() {
	s.stat["misuse_calls"]++
	t := s.begin(true)
	if err := t.tx.Set("", []byte("x")); !errors.Is(err, originium.ErrEmptyKey) {
		s.fail("C08", "misuse/empty-key-set", "Set(\"\") returned %v, want ErrEmptyKey", err)
	}
	if err := t.tx.Delete(""); !errors.Is(err, originium.ErrEmptyKey) {
		s.fail("C08", "misuse/empty-key-delete", "Delete(\"\") returned %v, want ErrEmptyKey", err)
	}
	if _, ok := t.tx.Get(""); ok {
		s.fail("C08", "misuse/empty-key-get", "Get(\"\") found a value")
	}
	s.open = append(s.open, t)
	// an empty-key misuse leaves the transaction usable and without writes: it must commit
	s.finish(t, "commit")
}

func (s *scripted) reopen() bool {
	for len(s.open) > 0 {
		s.finish(s.open[0], "discard")
	}
	s.done = nil
	s.logf("Close")
	if p := eng.Safely(func() { s.db.Close() }); p != "" {
		s.fail("C08", "close-panic", "%s", p)
		return false
	}
	ran := false
	if err := s.db.View(func(*originium.Txn) error { ran = true; return nil }); !errors.Is(err, originium.ErrDBClosed) || ran {
		s.fail("C08", "misuse/view-after-close", "View after Close returned %v (closure ran: %v), want ErrDBClosed", err, ran)
	}
	if err := s.db.Update(func(*originium.Txn) error { ran = true; return nil }); !errors.Is(err, originium.ErrDBClosed) || ran {
		s.fail("C08", "misuse/update-after-close", "Update after Close returned %v (closure ran: %v), want ErrDBClosed", err, ran)
	}
	s.stat["misuse_calls"] += 2
	s.stat["reopens"]++
	if p := eng.Safely(func() { s.db = eng.Open(s.dir, s.cfg) }); p != "" {
		s.fail("C08", "open-panic", "%s", p)
		return false
	}
	s.logf("Open")
	// conflict bookkeeping restarts with the process; no transaction is open across it
	s.cws = nil
	return true
}

// keyProfileFor picks the key universe of a transaction case: hostile or prefix keys, and for every
// fourth case keys that differ only in NUL padding (distinct keys whose conflict fingerprints must differ)
func keyProfileFor(c core.Case, r *rand.Rand) string {
	p := []string{"hostile", "prefix"}[r.Intn(2)]
	if c.Seed%4 == 0 {
		p = "nulpad"
	}
	return p
}

func runScripted(c core.Case) core.Result {
	var res core.Result
	r := rand.New(rand.NewSource(c.Seed))
	s := &scripted{c: c, r: r, res: &res, valStr: map[int32]string{}, valID: map[string]int32{}, stat: map[string]int64{}}
	s.dir = filepath.Join(core.WorkerScratch(), c.ID)
	os.RemoveAll(s.dir)
	defer os.RemoveAll(s.dir)
	s.cfg = gen.Config(r)
	if r.Intn(2) == 0 {
		s.cfg.MemtableByteThreshold = []int{1, 64, 300}[r.Intn(3)]
	}
	nk := 3 + r.Intn(maxHistKeys-2)
	s.keys = gen.Keys(r, keyProfileFor(c, r), nk)
	// no guard against equal conflict fingerprints of distinct keys: with a 64-bit hash they do not occur in
	// these fixed universes, and a tree in which they do refuses commits without cause - the rules say so
	s.hist = make([][]sVer, nk)
	eng.H.SetProfile(c.Str("delay", "none"), c.Seed)
	defer eng.H.SetProfile("none", 0)
	before := eng.H.Snapshot()
	if tb := int(c.Int("tsbase", 0)); tb > 0 {
		// a store that has already seen very many commits
		eng.PlantTimestamp(s.dir, s.cfg, eng.TsBases[(tb-1)%len(eng.TsBases)])
		s.stat["scripts_on_a_store_with_a_high_timestamp"]++
	}
	if p := eng.Safely(func() { s.db = eng.Open(s.dir, s.cfg) }); p != "" {
		res.Violate(c.Str("prop", "C05"), "open-panic", "%s", p)
		return res
	}
	steps := int(c.Int("steps", 150))
	family := c.Str("family", "random")
	pinSteps := 0
	// oldreader-early: the keys the old reader read are overwritten by the first commits after its
	// snapshot and left alone afterwards, so that only those early commits can make it conflict
	// (they are the first entries a too eager cleanup of the committed list would drop)
	avoid := map[int]bool{}
	s.avoid = avoid
	earlyLeft := 0
	if family == "oldreader-early" {
		family = "oldreader"
		earlyLeft = 1 // exactly one: a second early commit to the same keys would mask the loss of the first
	}
	if family == "reopen-reader" {
		// build some state, close, reopen, and begin long-lived readers BEFORE the first commit of the
		// new incarnation: their snapshot timestamp is the recovered maximum, which recovery has
		// already marked done in the read watermark
		family = "oldreader"
		if p := eng.Safely(func() {
			for i := 0; i < 3+r.Intn(6); i++ {
				w := s.begin(true)
				s.open = append(s.open, w)
				s.write(w, r.Intn(nk), false)
				if r.Intn(2) == 0 {
					s.write(w, r.Intn(nk), r.Intn(4) == 0)
				}
				s.finish(w, "commit")
			}
			if r.Intn(2) == 0 {
				s.db.VerifDrain()
			}
			s.reopen()
			ro := s.begin(false)
			ro.pinned = true
			s.open = append(s.open, ro)
		}); p != "" {
			s.fail(c.Str("prop", "C05"), "panic", "engine panicked: %s", p)
			return res
		}
	}
	var pre *sTxn
	if family == "oldreader" && earlyLeft > 0 {
		// an even older reader holds the read watermark back; it ends after the early commits, which
		// makes the committed-list cleanup run exactly then
		for i := 0; i < 2+r.Intn(3); i++ {
			// warm-up commits: the read watermark must be able to *advance* when the older reader ends
			// (the committed list is cleaned only when the watermark moved)
			w0 := s.begin(true)
			s.open = append(s.open, w0)
			s.write(w0, r.Intn(nk), false)
			s.finish(w0, "commit")
		}
		pre = s.begin(false)
		s.open = append(s.open, pre)
		pre.pinned = true
		w := s.begin(true)
		s.open = append(s.open, w)
		s.write(w, r.Intn(nk), false)
		s.finish(w, "commit")
	}
	if family == "oldreader" {
		// one read-write transaction reads early and stays open while many others commit
		t := s.begin(true)
		t.pinned = true
		s.open = append(s.open, t)
		for i := 0; i < 1+r.Intn(3); i++ {
			k := r.Intn(nk)
			s.get(t, k)
			if earlyLeft > 0 {
				avoid[k] = true
			}
		}
		pinSteps = steps - 5
		for e := earlyLeft; e > 0; e-- {
			// early overwrite of a key the old reader read, by a whole transaction
			w := s.begin(true)
			s.open = append(s.open, w)
			for k := range avoid {
				s.write(w, k, false)
				break
			}
			s.finish(w, "commit")
		}
		if pre != nil {
			s.finish(pre, "discard")
		}
	}
	pickKey := func() int {
		for i := 0; i < 20; i++ {
			if k := r.Intn(nk); !avoid[k] {
				return k
			}
		}
		return r.Intn(nk)
	}
	p := eng.Safely(func() {
		for step := 0; step < steps && res.Verdict == ""; step++ {
			if family == "oldreader" && step == pinSteps {
				for _, t := range append([]*sTxn{}, s.open...) {
					if t.pinned {
						t.pinned = false
						for k := 0; k < nk; k++ {
							if t.update && len(avoid) > 0 && !avoid[k] {
								continue // oldreader-early: its read set stays what it read at the start
							}
							s.get(t, k) // the long-lived transaction still reads its snapshot
						}
						if t.update {
							s.write(t, r.Intn(nk), false)
							s.finish(t, "commit")
						} else {
							s.finish(t, "discard")
						}
					}
				}
				continue
			}
			x := r.Intn(100)
			var cand []*sTxn
			for _, t := range s.open {
				if !t.pinned {
					cand = append(cand, t)
				}
			}
			switch {
			case x < 14 && len(s.open) < 6:
				s.open = append(s.open, s.begin(r.Intn(4) > 0))
			case x < 42 && len(s.open) > 0:
				t := s.open[r.Intn(len(s.open))]
				k := r.Intn(nk)
				if t.pinned && t.update && len(avoid) > 0 && !avoid[k] {
					// the old reader of an oldreader-early script reads nothing else: only the early
					// commits may make it conflict
					break
				}
				s.get(t, k)
			case x < 62 && len(cand) > 0:
				s.write(cand[r.Intn(len(cand))], pickKey(), r.Intn(5) == 0)
			case x < 80 && len(cand) > 0:
				how := "commit"
				if r.Intn(6) == 0 {
					how = "discard"
				}
				s.finish(cand[r.Intn(len(cand))], how)
			case x < 86:
				s.closure(r.Intn(3) > 0)
			case x < 89 && len(s.done) > 0:
				// misuse of a finished transaction
				t := s.done[r.Intn(len(s.done))]
				switch r.Intn(4) {
				case 0:
					s.get(t, r.Intn(nk))
				case 1:
					s.write(t, r.Intn(nk), r.Intn(2) == 0)
				case 2:
					s.stat["misuse_calls"]++
					if err := t.tx.Commit(); !errors.Is(err, originium.ErrDiscardedTxn) {
						s.fail("C08", "misuse/commit-finished", "Commit on finished T%d returned %v, want ErrDiscardedTxn", t.rec.ID, err)
					}
				default:
					s.stat["misuse_calls"]++
					t.tx.Discard()
				}
			case x < 91:
				s.misuseEmptyKey()
			case x < 96 || (family == "oldreader" && x < 99 && r.Intn(2) == 0):
				s.db.VerifDrain()
				s.stat["drains"]++
				s.logf("drain")
			case x < 98 && family != "oldreader":
				if !s.reopen() {
					return
				}
			}
		}
		for len(s.open) > 0 {
			s.finish(s.open[0], "discard")
		}
		// final sweep: a fresh reader sees exactly the committed state (nothing abandoned leaked)
		s.db.VerifDrain()
		t := s.begin(false)
		s.open = append(s.open, t)
		for k := 0; k < nk; k++ {
			s.get(t, k)
		}
		s.finish(t, "discard")
		s.db.Close()
	})
	if p != "" {
		s.fail(c.Str("prop", "C05"), "panic", "engine panicked: %s", p)
	}
	// the recorded history must also pass the offline checkers (C05 SNAP, C06 SER)
	if res.Verdict == "" {
		idx := map[int]*hTxn{}
		for _, t := range s.txns {
			idx[t.ID] = t
		}
		if v := checkOps(snapOps(s.txns), nk, 20*time.Second, idx); v.Result == "illegal" {
			res.Violate("C05", "C05/scripted/snap-illegal", "%s", v.Witness)
		}
		if v := checkOps(serOps(s.txns), nk, 20*time.Second, idx); v.Result == "illegal" {
			res.Violate("C06", "C06/scripted/not-serializable", "%s", v.Witness)
		} else if v.Result == "unknown" {
			s.stat["ser_unknown"]++
		}
		for _, f := range localRules(s.txns) {
			res.Violate(f.Prop, f.Prop+"/scripted/"+f.Sig, "%s", f.Detail)
		}
	}
	obs := eng.Diff(before, eng.H.Snapshot())
	for k, v := range obs {
		if !strings.HasPrefix(k, "pt.") {
			res.AddObs(k, v)
		}
	}
	for k, v := range s.stat {
		res.AddObs(k, v)
	}
	res.AddObs("transactions", int64(len(s.txns)))
	res.Extra = map[string]any{
		"nt_C05": s.stat["commits"] > 0 && obs["flush"] > 0 && s.stat["gets"] > 10,
		"nt_C06": s.stat["commits"] >= 3,
		"nt_C07": s.stat["predicted_conflicts"] > 0 && s.stat["predicted_nonconflicting_overlaps"] > 0,
		"nt_C08": s.stat["abandoned_writesets"] > 0 && obs["flush"] > 0,
	}
	res.Hash = core.HashOf([]any{c.Seed, c.S, c.N})
	if f := os.Getenv("VERIF_DEBUG_TRACE"); f != "" {
		os.WriteFile(f, []byte(strings.Join(s.trace, "\n")), 0644)
	}
	if c.Int("sample", 0) == 1 {
		res.Sample = map[string]any{"kind": "scripted/" + family, "config": gen.CfgString(s.cfg), "keys": s.keys, "steps": steps,
			"first_steps": s.trace[:min(14, len(s.trace))], "stats": s.stat}
	}
	return res
}
