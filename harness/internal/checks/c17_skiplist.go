package checks

import (
	"fmt"
	"math"
	"math/rand"
	"sort"
	"strings"

	"github.com/B1NARY-GR0UP/originium/pkg/skiplist"
	"github.com/B1NARY-GR0UP/originium/types"

	"verifharness/internal/core"
	"verifharness/internal/gen"
)

// C17: the skiplist behaves as a sorted map of versioned keys.
// Oracle: a sorted slice ordered by (user key ascending, version descending), kept by the harness
// from the (user key, version) pairs it generated - it never calls the engine's comparator.

type slEntry struct {
	user string
	ts   uint64
	val  string
	tomb bool
}

type sortedModel struct{ es []slEntry }

func slLess(au string, at uint64, bu string, bt uint64) bool {
	if au != bu {
		return au < bu
	}
	return at > bt
}

// first index whose entry is >= (user, ts)
func (m *sortedModel) lower(user string, ts uint64) int {
	return sort.Search(len(m.es), func(i int) bool { return !slLess(m.es[i].user, m.es[i].ts, user, ts) })
}

func (m *sortedModel) set(e slEntry) (overwrite bool) {
	i := m.lower(e.user, e.ts)
	if i < len(m.es) && m.es[i].user == e.user && m.es[i].ts == e.ts {
		m.es[i].val, m.es[i].tomb = e.val, e.tomb
		return true
	}
	m.es = append(m.es, slEntry{})
	copy(m.es[i+1:], m.es[i:])
	m.es[i] = e
	return false
}

func (m *sortedModel) del(user string, ts uint64) bool {
	i := m.lower(user, ts)
	if i < len(m.es) && m.es[i].user == user && m.es[i].ts == ts {
		m.es = append(m.es[:i], m.es[i+1:]...)
		return true
	}
	return false
}

func slSame(e types.Entry, m slEntry) bool {
	return e.Key == types.KeyWithTs(m.user, m.ts) && string(e.Value) == m.val && e.Tombstone == m.tomb && e.Version == int64(m.ts)
}

func slDesc(m slEntry) string {
	return fmt.Sprintf("{%q@%d val=%q tomb=%v}", m.user, m.ts, m.val, m.tomb)
}

func slListSame(got []types.Entry, want []slEntry) string {
	if len(got) != len(want) {
		return fmt.Sprintf("length %d, model %d", len(got), len(want))
	}
	for i := range got {
		if !slSame(got[i], want[i]) {
			return fmt.Sprintf("position %d: got {%q val=%q tomb=%v ver=%d}, model %s", i, got[i].Key, got[i].Value, got[i].Tombstone, got[i].Version, slDesc(want[i]))
		}
	}
	return ""
}

func runC17(c core.Case) core.Result {
	var res core.Result
	r := rand.New(rand.NewSource(c.Seed))
	maxLevel := int(c.Int("maxLevel", 4))
	p := float64(c.Int("p1000", 500)) / 1000
	nops := int(c.Int("ops", 100))
	users := gen.Keys(r, c.Str("keys", "hostile"), int(c.Int("nkeys", 6)))
	sl := skiplist.New(maxLevel, p)
	var m sortedModel
	var trace []string
	// the same byte slice is handed to Set for different keys now and then (a caller may do that),
	// and slices handed out by the list are kept and must never change afterwards
	var inputs [][]byte
	type held struct {
		what  string
		live  []byte
		clone string
	}
	var returned []held
	overwrites, deletes, lbProbes, scans, emptied := 0, 0, 0, 0, 0
	// churn: few versioned keys, many successful deletes, the list drained to nothing again and again
	// (the list's height shrinks and grows; towers are unlinked on every level)
	churn := c.Int("churn", 0) == 1
	drainLeft := 0
	fail := func(sig, f string, a ...any) {
		res.Violate("C17", "C17/"+sig, "%s\nmaxLevel=%d p=%.3f users=%q\nlast ops: %s", fmt.Sprintf(f, a...), maxLevel, p, users, strings.Join(trace[max(0, len(trace)-12):], " ; "))
	}
	pick := func() (string, uint64) {
		u := users[r.Intn(len(users))]
		var ts uint64
		switch x := r.Intn(20); {
		case x < 16:
			ts = uint64(r.Intn(10))
		case x < 18:
			ts = uint64(10 + r.Intn(100))
		case x < 19:
			ts = math.MaxUint64
		default:
			ts = 1 << 40
		}
		return u, ts
	}
	if churn {
		pick = func() (string, uint64) { return users[r.Intn(len(users))], uint64(r.Intn(3)) }
	}
	for i := 0; i < nops && res.Verdict == ""; i++ {
		u, ts := pick()
		x := r.Intn(100)
		if churn {
			if drainLeft == 0 && len(m.es) > 0 && r.Intn(40) == 0 {
				drainLeft = len(m.es)
			}
			switch {
			case drainLeft > 0 && len(m.es) > 0:
				drainLeft--
				j := r.Intn(len(m.es))
				u, ts, x = m.es[j].user, m.es[j].ts, 50
				if len(m.es) == 1 {
					emptied++
				}
			case x >= 30 && x < 55 && len(m.es) > 0 && r.Intn(5) > 0:
				j := r.Intn(len(m.es))
				u, ts, x = m.es[j].user, m.es[j].ts, 50
			case x >= 30 && x < 45:
				x = 50
			}
		}
		key := types.KeyWithTs(u, ts)
		switch {
		case x < 45: // Set
			if ts > math.MaxInt64 {
				ts = uint64(r.Intn(10))
				key = types.KeyWithTs(u, ts)
			}
			e := slEntry{user: u, ts: ts, val: fmt.Sprintf("v%d", i), tomb: r.Intn(5) == 0}
			if r.Intn(8) == 0 {
				e.val = ""
			}
			val := []byte(e.val)
			if len(inputs) > 0 && r.Intn(5) == 0 {
				val = inputs[r.Intn(len(inputs))] // the very same slice again, for this key
				e.val = string(val)
			} else if len(val) > 0 {
				inputs = append(inputs, val)
			}
			trace = append(trace, fmt.Sprintf("Set(%q,%q,%v)", key, e.val, e.tomb))
			sl.Set(types.Entry{Key: key, Value: val, Tombstone: e.tomb, Version: int64(ts)})
			if m.set(e) {
				overwrites++
			}
		case x < 55: // Delete
			trace = append(trace, fmt.Sprintf("Delete(%q)", key))
			got := sl.Delete(key)
			want := m.del(u, ts)
			if want {
				deletes++
			}
			if got != want {
				fail("delete-result", "Delete(%q) = %v, model %v", key, got, want)
			}
		case x < 70: // Get
			trace = append(trace, fmt.Sprintf("Get(%q)", key))
			got, ok := sl.Get(key)
			j := m.lower(u, ts)
			want := j < len(m.es) && m.es[j].user == u && m.es[j].ts == ts
			if ok != want || (ok && !slSame(got, m.es[j])) {
				fail("get", "Get(%q) = ({%q %q %v %d}, %v), model found=%v", key, got.Key, got.Value, got.Tombstone, got.Version, ok, want)
			} else if ok && len(got.Value) > 0 && len(returned) < 64 {
				returned = append(returned, held{fmt.Sprintf("Get(%q) at op %d", key, i), got.Value, string(got.Value)})
			}
		case x < 88: // LowerBound
			trace = append(trace, fmt.Sprintf("LowerBound(%q)", key))
			lbProbes++
			got, ok := sl.LowerBound(key)
			j := m.lower(u, ts)
			if ok != (j < len(m.es)) || (ok && !slSame(got, m.es[j])) {
				w := "none"
				if j < len(m.es) {
					w = slDesc(m.es[j])
				}
				fail("lowerbound", "LowerBound(%q) = ({%q %q %v %d}, %v), model %s", key, got.Key, got.Value, got.Tombstone, got.Version, ok, w)
			}
		case x < 96: // Scan
			u2, ts2 := pick()
			key2 := types.KeyWithTs(u2, ts2)
			trace = append(trace, fmt.Sprintf("Scan(%q,%q)", key, key2))
			scans++
			got := sl.Scan(key, key2)
			a, b := m.lower(u, ts), m.lower(u2, ts2)
			var want []slEntry
			if a < b {
				want = m.es[a:b]
			}
			if d := slListSame(got, want); d != "" {
				fail("scan", "Scan(%q,%q): %s", key, key2, d)
			}
		default: // All
			trace = append(trace, "All()")
			if d := slListSame(sl.All(), m.es); d != "" {
				fail("all", "All(): %s", d)
			}
		}
	}
	if res.Verdict == "" {
		if d := slListSame(sl.All(), m.es); d != "" {
			fail("all", "final All(): %s", d)
		}
	}
	if res.Verdict == "" {
		for _, h := range returned {
			if string(h.live) != h.clone {
				fail("returned-value-changed", "the value returned by %s was %q and has become %q after later Set calls", h.what, h.clone, h.live)
				break
			}
		}
	}
	res.AddObs("ops", int64(nops))
	res.AddObs("overwrites", int64(overwrites))
	res.AddObs("deletes", int64(deletes))
	res.AddObs("lowerbound_probes", int64(lbProbes))
	res.AddObs("scans", int64(scans))
	res.AddObs("final_entries", int64(len(m.es)))
	if churn {
		res.AddObs("churn_sequences", 1)
		res.AddObs("churn_list_emptied", int64(emptied))
	}
	res.NonTrivial = overwrites > 0 && deletes > 0 && (len(m.es) > 1 || churn)
	res.Hash = core.HashOf(trace)
	if c.Int("sample", 0) == 1 {
		res.Sample = map[string]any{"maxLevel": maxLevel, "p": p, "users": users, "first_ops": trace[:min(12, len(trace))], "final_entries": len(m.es)}
	}
	return res
}

func genC17(tier string, seed int64) []core.Case {
	n := 2000
	if tier == "thorough" {
		n = 100000
	}
	r := rand.New(rand.NewSource(seed*7919 + 17))
	var cs []core.Case
	for i := 0; i < n; i++ {
		ml := 1 + r.Intn(16)
		if i%10 == 0 {
			ml = 1
		}
		c := core.Case{ID: fmt.Sprintf("sl%06d", i), Kind: "seq", Seed: r.Int63(), N: map[string]int64{
			"maxLevel": int64(ml), "p1000": []int64{10, 100, 250, 500, 750, 900, 990}[r.Intn(7)],
			"ops": int64(50 + r.Intn(451)), "nkeys": int64(2 + r.Intn(10)),
		}, S: map[string]string{"keys": []string{"hostile", "hostile", "binary", "long", "plain"}[r.Intn(5)]}}
		if i < 3 {
			c.N["sample"] = 1
		}
		if i%3 == 1 {
			c.N["churn"] = 1
			c.N["nkeys"] = int64(2 + r.Intn(4))
			if c.N["maxLevel"] == 1 {
				c.N["maxLevel"] = int64(2 + r.Intn(12))
			}
		}
		cs = append(cs, c)
	}
	return cs
}

func init() {
	core.Register(&core.Check{
		Prop: "C17", Level: "exploration",
		Rule: "case = one random sequence of 50-500 Set/Delete/Get/LowerBound/Scan/All calls on a fresh skiplist (maxLevel 1..16, p 0.01..0.99, hostile/binary/long user keys x versions 0..9 plus extreme versions; every third sequence a churn sequence: 2-5 user keys x 3 versions, a third of the calls successful Deletes, the list drained to empty now and then so that its height shrinks and grows); every result is compared with a sorted-slice model; non-trivial = at least one overwrite of an existing versioned key and one successful Delete and >1 entry left; distinct by hash of the operation sequence",
		Gen:  genC17, Run: runC17, BatchSize: 500, GoMaxProcs: 1, Parallel: 16,
		MinNonTrivial: map[string]int{"quick": 500, "thorough": 20000},
		Assumptions:   []string{"versioned keys only (user@ts), as the engine uses the skiplist", "single goroutine: the memtable serialises access with its own lock"},
	})
}
