// Package eng wraps the engine for the workers: quiet logger, hook handler (event counters,
// activity counter, seeded delay injection at schedule points, compaction feed), scratch dirs.
package eng

import (
	"log"
	"io"
	"fmt"
	"math/rand"
	"os"
	"runtime"
	"sort"
	"strings"
	"sync"
	"sync/atomic"
	"time"

	"github.com/B1NARY-GR0UP/originium"
	"github.com/B1NARY-GR0UP/originium/pkg/logger"
	"github.com/B1NARY-GR0UP/originium/pkg/verifhook"
	"github.com/B1NARY-GR0UP/originium/types"

	"verifharness/internal/core"
)

type quiet struct{}

func (quiet) Debugf(string, ...any)     {}
func (quiet) Infof(string, ...any)      {}
func (quiet) Warnf(string, ...any)      {}
func (quiet) Errorf(string, ...any)     {}
func (quiet) Fatalf(f string, a ...any) { panic("FATALF: " + fmt.Sprintf(f, a...)) }
func (quiet) Panicf(f string, a ...any) { panic(fmt.Sprintf(f, a...)) }

func init() { logger.SetLogger(quiet{}) }

// DefaultLogger installs a fresh instance of the repository's own logger type (what a user of the
// engine gets, here with its output discarded: the formatting and locking of pkg/logger run, nothing
// reaches stderr) and returns the function that puts the quiet logger back. Handles capture the
// logger when they are opened, so call it before Open.
func DefaultLogger() (restore func()) {
	logger.SetLogger(&logger.FLogger{Logger: log.New(io.Discard, "originium ", log.LstdFlags)})
	return func() { logger.SetLogger(quiet{}) }
}

// Hooks is the process-wide handler state. Counters are lock-free; the delay PRNG has its own lock.
type Hooks struct {
	Activity atomic.Int64
	InFlight atomic.Int64 // client API calls currently executing (maintained by the drivers)

	mu       sync.Mutex
	counters map[string]*atomic.Int64

	dmu     sync.Mutex
	rng     *rand.Rand
	profile string

	flushAtQueue      atomic.Int64
	commitsInProgress atomic.Int64

	// FS/FSDone chained handlers (crash package)
	FS     func(op, path string)
	FSDone func(op, path string)
	// OnCompaction is called for every real compaction
	OnCompaction func(level int, inputs [][]types.Entry, output []types.Entry, low uint64)
	// OnEvent is called for every event (after counting)
	OnEvent func(name string)
}

var H = &Hooks{counters: map[string]*atomic.Int64{}}

func (h *Hooks) counter(name string) *atomic.Int64 {
	h.mu.Lock()
	c := h.counters[name]
	if c == nil {
		c = new(atomic.Int64)
		h.counters[name] = c
	}
	h.mu.Unlock()
	return c
}

func (h *Hooks) Count(name string) int64 { return h.counter(name).Load() }

// Snapshot returns all counters.
func (h *Hooks) Snapshot() map[string]int64 {
	h.mu.Lock()
	defer h.mu.Unlock()
	m := map[string]int64{}
	for k, c := range h.counters {
		m[k] = c.Load()
	}
	return m
}

// Diff returns the counters that changed since before.
func Diff(before, after map[string]int64) map[string]int64 {
	m := map[string]int64{}
	for k, v := range after {
		if d := v - before[k]; d != 0 {
			m[k] = d
		}
	}
	return m
}

func SortedKeys(m map[string]int64) []string {
	var ks []string
	for k := range m {
		ks = append(ks, k)
	}
	sort.Strings(ks)
	return ks
}

// SetProfile selects the delay profile for the schedule points and reseeds its PRNG.
//
//	none          no delays
//	jitter        every point: 70% nothing, 20% Gosched, 10% sleep 5µs–500µs
//	slow-flusher  the flush goroutine's points sleep 0.2–3 ms (queue fills up)
//	slow-commit   commit.gotTs/commit.written sleep 0.1–2 ms (readers wait on commitMark)
//	slow-rotate   rawset points sleep 50µs–1ms (readers overlap the rotation)
//	slow-begin    a third of the Begins sleep 0.3–3.3 ms between taking the timestamp and the wait
func (h *Hooks) SetProfile(profile string, seed int64) {
	h.dmu.Lock()
	h.profile = profile
	h.rng = rand.New(rand.NewSource(seed))
	h.dmu.Unlock()
}

func (h *Hooks) point(name string) {
	h.Activity.Add(1)
	core.Activity.Add(1)
	h.counter("pt." + name).Add(1)
	// evidence only: did a sender wait for the flush queue, did a Begin arrive during a commit
	switch name {
	case "rawset.beforeQueue":
		h.flushAtQueue.Store(h.counter("flush").Load() + h.counter("pt.run.dequeued").Load())
	case "rawset.afterQueue":
		if h.counter("flush").Load()+h.counter("pt.run.dequeued").Load() > h.flushAtQueue.Load() {
			h.counter("queue.sender-waited").Add(1)
		}
	case "commit.gotTs":
		h.commitsInProgress.Add(1)
	case "readTs.beforeWait":
		if h.commitsInProgress.Load() > 0 {
			h.counter("begin.during-commit").Add(1)
		}
	}
	h.dmu.Lock()
	p := h.profile
	if p == "" || p == "none" || h.rng == nil {
		h.dmu.Unlock()
		return
	}
	x := h.rng.Intn(1000)
	y := h.rng.Intn(1000)
	h.dmu.Unlock()
	var d time.Duration
	isRun := strings.HasPrefix(name, "run.") || strings.HasPrefix(name, "flush.")
	isCommit := strings.HasPrefix(name, "commit.")
	isRawset := strings.HasPrefix(name, "rawset.")
	switch p {
	case "jitter":
		switch {
		case x < 700:
		case x < 900:
			runtime.Gosched()
		default:
			d = time.Duration(5+y/2) * time.Microsecond
		}
	case "slow-flusher":
		if isRun {
			d = time.Duration(200+3*y) * time.Microsecond
		} else if x < 100 {
			runtime.Gosched()
		}
	case "slow-commit":
		if isCommit {
			d = time.Duration(100+2*y) * time.Microsecond
		} else if x < 100 {
			runtime.Gosched()
		}
	case "slow-begin":
		// Begin is stretched between taking its timestamp and waiting for the commit mark
		if name == "readTs.beforeWait" && x < 350 {
			d = time.Duration(300+3*y) * time.Microsecond
		} else if x < 100 {
			runtime.Gosched()
		}
	case "slow-rotate":
		if isRawset {
			d = time.Duration(50+y) * time.Microsecond
		} else if x < 100 {
			runtime.Gosched()
		}
	}
	if d > 0 {
		time.Sleep(d)
	}
}

func (h *Hooks) event(name string) {
	h.Activity.Add(1)
	core.Activity.Add(1)
	h.counter(name).Add(1)
	if name == "rotate" || name == "flush" || strings.HasPrefix(name, "compact.L") {
		if n := h.InFlight.Load(); n >= 2 {
			h.counter("overlap." + name[:min(len(name), 7)]).Add(1)
		}
	}
	if name == "commit.done" {
		h.commitsInProgress.Add(-1)
	}
	if f := h.OnEvent; f != nil {
		f(name)
	}
}

func init() {
	verifhook.Set(&verifhook.Handler{
		FS: func(op, path string) {
			H.Activity.Add(1)
			core.Activity.Add(1)
			if f := H.FS; f != nil {
				f(op, path)
			}
		},
		FSDone: func(op, path string) {
			if f := H.FSDone; f != nil {
				f(op, path)
			}
		},
		Point: func(name string) { H.point(name) },
		Event: func(name string) { H.event(name) },
		Compaction: func(level int, inputs [][]types.Entry, output []types.Entry, low uint64) {
			if low > 0 {
				H.counter("discard.low>0").Add(1)
			}
			n := 0
			for _, l := range inputs {
				n += len(l)
			}
			if len(output) < n {
				H.counter("discard.dropped").Add(int64(n - len(output)))
			}
			if f := H.OnCompaction; f != nil {
				f(level, inputs, output, low)
			}
		},
	})
}

// Dir returns a fresh database directory under base.
func Dir(base, name string) string {
	d := base + "/" + name
	os.RemoveAll(d)
	return d
}

// PlantKey is the key of the entry PlantTimestamp writes; no generator produces it.
const PlantKey = "~~planted-by-the-harness~~"

// TsBases are the commit-timestamp bases a fresh directory can be given: a store that has already
// seen that many commits (the counter is about to cross 2^16, 2^31, 2^32, 2^53 or sits at 2^62).
var TsBases = []uint64{1<<32 - 3, 1<<31 - 3, 1<<16 - 3, 1<<53 - 2, 1 << 62}

// PlantTimestamp gives a directory that does not exist yet a history: one L0 table, written by the
// engine's own flush code, holding one entry at version base. The first Open continues at base+1.
func PlantTimestamp(dir string, cfg originium.Config, base uint64) {
	if err := os.MkdirAll(dir, 0755); err != nil {
		panic(err)
	}
	l0, ratio, blk := cfg.L0TargetNum, cfg.LevelRatio, cfg.DataBlockByteThreshold
	if l0 <= 0 {
		l0 = originium.DefaultConfig.L0TargetNum
	}
	if ratio <= 0 {
		ratio = originium.DefaultConfig.LevelRatio
	}
	if blk <= 0 {
		blk = originium.DefaultConfig.DataBlockByteThreshold
	}
	lv := originium.VerifNewLevels(dir, l0, ratio, blk)
	defer lv.Close()
	if err := lv.Flush([]types.Entry{{Key: types.KeyWithTs(PlantKey, base), Value: []byte("planted"), Version: int64(base)}}); err != nil {
		panic(fmt.Sprintf("PlantTimestamp: %v", err))
	}
}

func Open(dir string, cfg originium.Config) *originium.DB {
	db, err := originium.Open(dir, cfg)
	if err != nil {
		panic(fmt.Sprintf("Open(%s): %v", dir, err))
	}
	return db
}

// Safely runs f and converts an engine panic into an error string (with stack).
func Safely(f func()) (panicked string) {
	defer func() {
		if r := recover(); r != nil {
			buf := make([]byte, 8192)
			n := runtime.Stack(buf, false)
			panicked = fmt.Sprintf("%v\n%s", r, buf[:n])
		}
	}()
	f()
	return ""
}
