// Package gen holds the seeded generators shared by the checks: key universes, values, configs.
package gen

import (
	"fmt"
	"math/rand"
	"strings"

	"github.com/B1NARY-GR0UP/originium"
)

// Hostile user keys: '@' inside keys, bytes below '@', prefixes of each other, digit suffixes
// that look like versions, binary bytes.
var Hostile = []string{
	"a", "a!", "a@", "a@1", "a@1@2", "a#b", "ab", "a\x00", "@", "@@", "b@9", "b@10", "\xff", "k/1", "k/10", "k/2",
	"b", "b!", "c", "A", "a ", "a@0", "zz", "z@", "\x01", "a\xff", "a@@", "0", "00", "1@1",
	// multi-byte UTF-8 neighbours that share lead bytes and differ in a continuation byte
	"城市一", "城市二", "城市", "ключ1", "ключ2", "é", "è", "ée",
}

// Keys returns n user keys of the given profile.
func Keys(r *rand.Rand, profile string, n int) []string {
	var ks []string
	switch profile {
	case "hostile":
		perm := r.Perm(len(Hostile))
		for i := 0; i < n && i < len(perm); i++ {
			ks = append(ks, Hostile[perm[i]])
		}
		for i := len(ks); i < n; i++ {
			ks = append(ks, fmt.Sprintf("h%d@%d", i, r.Intn(20)))
		}
	case "windowed":
		for i := 0; i < n; i++ {
			ks = append(ks, fmt.Sprintf("k%05d", i))
		}
	case "long":
		prefix := strings.Repeat("p", 20+r.Intn(280))
		for i := 0; i < n; i++ {
			ks = append(ks, fmt.Sprintf("%s/%d@%c", prefix[:len(prefix)-r.Intn(10)], i, 'a'+rune(r.Intn(3))))
		}
	case "prefix":
		// many pairs where one key is a prefix of another and the next byte sorts below '@' (digits,
		// '!', '/', ' '): the order of versioned keys "k@5" / "k0@3" differs from the raw byte order
		stems := []string{"k", "k0", "k1", "k!", "k/", "k/1", "k0a", "k00", "k1!", "k 0", "kA", "k@", "k@0", "k", "m", "m0", "m!", "m01"}
		seen := map[string]bool{}
		for _, i := range r.Perm(len(stems)) {
			if len(ks) < n && !seen[stems[i]] {
				seen[stems[i]] = true
				ks = append(ks, stems[i])
			}
		}
		for i := len(ks); i < n; i++ {
			ks = append(ks, fmt.Sprintf("k%d!%d", i%3, i))
		}
	case "nulpad":
		// short keys that differ only in trailing (or leading) NUL bytes, and their neighbours: distinct
		// keys for the engine, equal under any fixed-width zero padding
		stems := []string{"a", "a\x00", "a\x00\x00", "k", "k\x00", "\x00", "\x00\x00", "ab", "ab\x00", "\x00a", "absent", "absent\x00\x00", "12345678", "1234567", "1234567\x00", "k\x00\x01"}
		for _, i := range r.Perm(len(stems)) {
			if len(ks) < n {
				ks = append(ks, stems[i])
			}
		}
		for i := len(ks); i < n; i++ {
			ks = append(ks, fmt.Sprintf("n%d\x00", i))
		}
	case "binary":
		seen := map[string]bool{}
		for len(ks) < n {
			b := make([]byte, 1+r.Intn(6))
			r.Read(b)
			k := string(b)
			if k == "" || seen[k] {
				continue
			}
			seen[k] = true
			ks = append(ks, k)
		}
	default:
		for i := 0; i < n; i++ {
			ks = append(ks, fmt.Sprintf("key%d", i))
		}
	}
	return ks
}

var KeyProfiles = []string{"hostile", "windowed", "long", "binary", "plain", "prefix"}

// Value builds a unique value "<tag>" padded to one of the interesting lengths.
func Value(r *rand.Rand, tag string, big bool) []byte {
	var pad int
	switch x := r.Intn(20); {
	case x < 3:
		pad = 0
	case x < 10:
		pad = r.Intn(24)
	case x < 15:
		pad = 30 + r.Intn(100)
	case x < 18:
		pad = 200 + r.Intn(600)
	default:
		pad = 1000 + r.Intn(4000)
	}
	if big {
		switch r.Intn(4) {
		case 0:
			pad = 65535 - len(tag) - 1
		case 1:
			pad = 65536 - len(tag) - 1
		case 2:
			pad = 70000
		case 3:
			pad = 1 << 20
		}
	}
	if pad <= 0 {
		return []byte(tag)
	}
	return []byte(tag + "|" + strings.Repeat(string(rune('a'+r.Intn(26))), pad))
}

// Tag recovers the unique tag of a value built by Value.
func Tag(v []byte) string {
	s := string(v)
	if i := strings.IndexByte(s, '|'); i >= 0 {
		return s[:i]
	}
	return s
}

var (
	MemThresholds   = []int{1, 64, 300, 1000, 4096}
	BlockThresholds = []int{1, 32, 200, 4096}
)

// Config draws an engine configuration with tiny thresholds.
func Config(r *rand.Rand) originium.Config {
	return originium.Config{
		SkipListMaxLevel:       []int{1, 4, 12}[r.Intn(3)],
		SkipListP:              []float64{0.1, 0.5, 0.9}[r.Intn(3)],
		MemtableByteThreshold:  MemThresholds[r.Intn(len(MemThresholds))],
		ImmutableBuffer:        []int{0, 1, 2, 4}[r.Intn(4)],
		DataBlockByteThreshold: BlockThresholds[r.Intn(len(BlockThresholds))],
		L0TargetNum:            1 + r.Intn(3),
		LevelRatio:             1 + r.Intn(3),
	}
}

// ConfigWide draws from the whole range a user may configure: zero values (the engine substitutes its
// defaults: 4 MiB memtable, 4 KiB blocks, L0 target 5, ratio 10, skiplist 9/0.5), the default-sized
// flush queue, block thresholds above the memtable threshold, larger level geometry.
func ConfigWide(r *rand.Rand) originium.Config {
	return originium.Config{
		SkipListMaxLevel:       []int{0, 1, 2, 9, 32}[r.Intn(5)],
		SkipListP:              []float64{0, 0.25, 0.5, 0.99}[r.Intn(4)],
		MemtableByteThreshold:  []int{1, 64, 300, 1000, 4096, 16384, 65536}[r.Intn(7)],
		ImmutableBuffer:        []int{0, 1, 3, 10, 16}[r.Intn(5)],
		DataBlockByteThreshold: []int{0, 1, 32, 200, 4096, 16384, 65536}[r.Intn(7)],
		L0TargetNum:            []int{0, 1, 2, 4, 6, 8, 12}[r.Intn(7)],
		LevelRatio:             []int{0, 1, 2, 4, 10}[r.Intn(5)],
	}
}

func CfgString(c originium.Config) string {
	return fmt.Sprintf("mem=%d imm=%d blk=%d l0=%d ratio=%d sl=%d/%.1f", c.MemtableByteThreshold, c.ImmutableBuffer,
		c.DataBlockByteThreshold, c.L0TargetNum, c.LevelRatio, c.SkipListMaxLevel, c.SkipListP)
}

var DelayProfiles = []string{"none", "jitter", "slow-flusher", "slow-commit", "slow-rotate", "slow-begin"}
