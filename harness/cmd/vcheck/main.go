package main

import (
	"fmt"
	"os"
	"strconv"

	_ "verifharness/internal/checks"
	"verifharness/internal/core"
)

func main() {
	if len(os.Args) < 2 {
		fmt.Println("usage: vcheck run <Cxx> <quick|thorough> | vcheck worker <Cxx> <cases> <out> | vcheck list")
		os.Exit(2)
	}
	switch os.Args[1] {
	case "list":
		for _, p := range core.Props() {
			fmt.Println(p)
		}
	case "run":
		if len(os.Args) < 4 {
			os.Exit(2)
		}
		seed := int64(1)
		if s := os.Getenv("VERIF_SEED"); s != "" {
			if v, err := strconv.ParseInt(s, 10, 64); err == nil {
				seed = v
			}
		}
		os.Exit(core.RunCheck(os.Args[2], os.Args[3], seed))
	case "worker":
		if len(os.Args) < 5 {
			os.Exit(2)
		}
		os.Exit(core.WorkerMain(os.Args[2], os.Args[3], os.Args[4]))
	default:
		if h := core.Sub[os.Args[1]]; h != nil {
			os.Exit(h(os.Args[2:]))
		}
		os.Exit(2)
	}
}
